package main

import (
	"bytes"
	"errors"
	"fmt"
	"io/ioutil"
	"math"
	"net/http"
	"os"
	"os/exec"
	"path/filepath"
	"strconv"
	"strings"
	"sync"
	"syscall"
	"time"

	wt "github.com/hnakamur/whispertool"
	wcmd "github.com/hnakamur/whispertool/cmd"
)

// ---------- C13: exclusive access ----------

const lockNow = 1700000000

func lockLayout() []wt.ArchiveInfo {
	// 700 slots of 1 s: 8.4 KiB, three 4 KiB pages, slots straddling page boundaries
	return []wt.ArchiveInfo{wt.NewArchiveInfo(1, 700)}
}

func createLockFile(path string) error {
	db, err := wt.Create(path, lockLayout(), wt.Sum, 0)
	if err != nil {
		return err
	}
	if err := db.UpdatePointForArchive(0, lockNow, 0, lockNow); err != nil {
		return err
	}
	if err := db.Sync(); err != nil {
		return err
	}
	return db.Close()
}

// incrementSession: open (blocks until the lock is free), read the counter, add one, sync, close.
func incrementSession(path string) error {
	db, err := wt.Open(path)
	if err != nil {
		return err
	}
	defer db.Close()
	ts, err := db.FetchFromArchive(0, lockNow-1, lockNow, lockNow)
	if err != nil || ts == nil || len(ts.Values()) == 0 {
		return fmt.Errorf("fetch counter: %v", err)
	}
	v := ts.Values()[len(ts.Values())-1]
	if err := db.UpdatePointForArchive(0, lockNow, v+1, lockNow); err != nil {
		return err
	}
	return db.Sync()
}

// generationSession writes generation g into every slot of the archive (all pages), then syncs.
func generationSession(path string, g int) error {
	db, err := wt.Open(path)
	if err != nil {
		return err
	}
	defer db.Close()
	pts := make([]wt.Point, 0, 699)
	for i := 1; i < 700; i++ {
		pts = append(pts, wt.Point{Time: wt.Timestamp(lockNow - i), Value: wt.Value(g)})
	}
	if err := db.UpdatePointsForArchive(pts, 0, lockNow); err != nil {
		return err
	}
	return db.Sync()
}

// readGeneration: a reader opens, fetches the whole archive and reports whether every slot
// carries the same generation (a mixture means it saw pages from before and after a Sync).
func readGeneration(path string) (mixed bool, err error) {
	db, err := wt.Open(path)
	if err != nil {
		return false, err
	}
	defer db.Close()
	ts, err := db.FetchFromArchive(0, lockNow-700, lockNow-1, lockNow)
	if err != nil || ts == nil {
		return false, fmt.Errorf("fetch: %v", err)
	}
	first := math.NaN()
	for _, v := range ts.Values() {
		f := float64(v)
		if math.IsNaN(f) {
			continue
		}
		if math.IsNaN(first) {
			first = f
		} else if f != first {
			return true, nil
		}
	}
	return false, nil
}

// lockFree reports whether a non-blocking exclusive flock on path succeeds right now.
func lockFree(path string) (bool, error) {
	f, err := os.Open(path)
	if err != nil {
		return false, err
	}
	defer f.Close()
	for {
		err = syscall.Flock(int(f.Fd()), syscall.LOCK_EX|syscall.LOCK_NB)
		if err == syscall.EINTR {
			continue
		}
		break
	}
	if err == syscall.EWOULDBLOCK {
		return false, nil
	}
	return err == nil, err
}

func runLockWorker(args []string) {
	// child process: <path> <count> <kind>
	n, _ := strconv.Atoi(args[1])
	for i := 0; i < n; i++ {
		var err error
		if args[2] == "inc" {
			err = incrementSession(args[0])
		} else {
			err = generationSession(args[0], os.Getpid()*1000+i)
		}
		if err != nil {
			fmt.Println("error:", err)
			os.Exit(1)
		}
	}
}

func lockSuite(c *Ctx) []Finding {
	var findings []Finding
	bad := func(sig, note string) {
		findings = append(findings, Finding{Stratum: "S", Suite: "lock", Signature: sig, Note: note,
			Impl: note, Model: "C13: " + sig})
	}
	count := func(kind, obs string) {
		c.Count(kind, Op{kind, true}, "lock", obs)
	}
	dir, _ := ioutil.TempDir("", "wspcheck-lock-")
	defer os.RemoveAll(dir)
	self, _ := os.Executable()
	rounds := 2
	gor, per, procs := 8, 15, 4
	if c.Tier == "thorough" {
		rounds, gor, per, procs = 6, 16, 40, 8
	}
	for round := 0; round < rounds; round++ {
		path := filepath.Join(dir, fmt.Sprintf("inc%d.wsp", round))
		if err := createLockFile(path); err != nil {
			bad("setup", err.Error())
			return findings
		}
		// (a)+(b) increment sessions from goroutines and from separate processes at once
		var wg sync.WaitGroup
		errs := make(chan error, gor+procs)
		for g := 0; g < gor; g++ {
			wg.Add(1)
			go func() {
				defer wg.Done()
				for i := 0; i < per; i++ {
					if err := incrementSession(path); err != nil {
						errs <- err
						return
					}
				}
			}()
		}
		var cmds []*exec.Cmd
		for p := 0; p < procs; p++ {
			cmd := exec.Command(self, "-child", "lockworker", path, strconv.Itoa(per), "inc")
			cmd.Stdout, cmd.Stderr = nil, nil
			cmd.Start()
			cmds = append(cmds, cmd)
		}
		wg.Wait()
		for _, cmd := range cmds {
			if err := cmd.Wait(); err != nil {
				errs <- fmt.Errorf("child: %v", err)
			}
		}
		close(errs)
		for e := range errs {
			bad("session-error", e.Error())
		}
		db, err := wt.Open(path)
		if err != nil {
			bad("reopen", err.Error())
			continue
		}
		ts, _ := db.FetchFromArchive(0, lockNow-1, lockNow, lockNow)
		db.Close()
		want := float64((gor + procs) * per)
		got := math.NaN()
		if ts != nil && len(ts.Values()) > 0 {
			got = float64(ts.Values()[len(ts.Values())-1])
		}
		for i := 0; i < (gor+procs)*per; i++ {
			count("increment-session", fmt.Sprintf("ok round%d", round))
		}
		if got != want {
			bad("lost-update", fmt.Sprintf("%d concurrent open-modify-sync-close sessions (%d goroutines, %d processes) left the counter at %v instead of %v",
				(gor+procs)*per, gor, procs, got, want))
		}

		// (c) whole-archive writers against readers
		gpath := filepath.Join(dir, fmt.Sprintf("gen%d.wsp", round))
		createLockFile(gpath)
		stop := make(chan struct{})
		var rwg sync.WaitGroup
		mixed := 0
		reads := 0
		var mu sync.Mutex
		for r := 0; r < 4; r++ {
			rwg.Add(1)
			go func() {
				defer rwg.Done()
				for {
					select {
					case <-stop:
						return
					default:
					}
					m, err := readGeneration(gpath)
					mu.Lock()
					reads++
					if err == nil && m {
						mixed++
					}
					mu.Unlock()
				}
			}()
		}
		var wwg sync.WaitGroup
		for w := 0; w < 3; w++ {
			w := w
			wwg.Add(1)
			go func() {
				defer wwg.Done()
				for i := 0; i < per; i++ {
					generationSession(gpath, w*100000+i+1)
				}
			}()
		}
		gcmd := exec.Command(self, "-child", "lockworker", gpath, strconv.Itoa(per), "gen")
		gcmd.Start()
		wwg.Wait()
		gcmd.Wait()
		close(stop)
		rwg.Wait()
		for i := 0; i < reads && i < 2000; i++ {
			count("whole-archive-read", fmt.Sprintf("ok round%d", round))
		}
		if mixed > 0 {
			bad("torn-read", fmt.Sprintf("%d of %d whole-archive reads saw slots of two different generations (pages from before and after a Sync)", mixed, reads))
		}
	}

	// (d) an Open or Create that fails after the descriptor was obtained leaves the file unlocked
	good := filepath.Join(dir, "good.wsp")
	createLockFile(good)
	gb, _ := ioutil.ReadFile(good)
	failing := map[string][]byte{
		"empty":            {},
		"short-header":     gb[:10],
		"truncated-header": gb[:20],
		"truncated-body":   gb[:len(gb)-100],
		"invalid-agg":      append([]byte{0, 0, 0, 99}, gb[4:]...),
		"zero-archives":    append(append([]byte{}, gb[:12]...), 0, 0, 0, 0),
		"garbage":          bytes.Repeat([]byte{0xff}, 64),
	}
	for name, content := range failing {
		p := filepath.Join(dir, "bad-"+name+".wsp")
		ioutil.WriteFile(p, content, 0644)
		_, err := wt.Open(p)
		if err == nil {
			bad("damaged-file-opens", "Open succeeded on a "+name+" file")
			continue
		}
		free, perr := lockFree(p)
		count("failed-open-probe", "ok "+name)
		if perr == nil && !free {
			bad("lock-leak-open", "after Open failed on a "+name+" file the file is still locked (a later Open would block)")
		}
	}
	cp := filepath.Join(dir, "create-ro.wsp")
	if _, err := wt.Create(cp, lockLayout(), wt.Sum, 0, wt.WithOpenFileFlag(os.O_RDONLY|os.O_CREATE)); err == nil {
		count("failed-create-probe", "ok (create unexpectedly succeeded)")
	} else {
		free, perr := lockFree(cp)
		count("failed-create-probe", "ok")
		if perr == nil && !free {
			bad("lock-leak-create", "after Create failed (Truncate on a read-only descriptor) the file is still locked")
		}
	}

	// (e) a second Open returns only after the first handle is closed
	hp := filepath.Join(dir, "hold.wsp")
	createLockFile(hp)
	first, err := wt.Open(hp)
	if err == nil {
		done := make(chan time.Time, 1)
		go func() {
			db, err := wt.Open(hp)
			if err == nil {
				db.Close()
			}
			done <- time.Now()
		}()
		select {
		case <-done:
			bad("no-exclusion", "a second Open returned while the first handle was still open")
		case <-time.After(300 * time.Millisecond):
		}
		closedAt := time.Now()
		first.Close()
		select {
		case t := <-done:
			if t.Before(closedAt) {
				bad("no-exclusion", "second Open returned before Close")
			}
		case <-time.After(20 * time.Second):
			bad("open-never-returns", "the second Open did not return within 20 s after the first handle was closed")
		}
		count("second-open-waits", "ok")
	}

	// (g) the handle Create returns holds the file like any other: while it is open the file
	// is locked and a second Open waits; updates of the two sessions are both kept
	cpath := filepath.Join(dir, "created.wsp")
	if cdb, err := wt.Create(cpath, lockLayout(), wt.Sum, 0); err == nil {
		free, perr := lockFree(cpath)
		count("create-holds-lock", "ok")
		if perr == nil && free {
			bad("create-unlocked", "the file is not locked while the handle returned by Create is open")
		}
		done := make(chan error, 1)
		go func() {
			db, err := wt.Open(cpath)
			if err == nil {
				db.Close()
			}
			done <- err
		}()
		select {
		case <-done:
			bad("no-exclusion-create", "an Open returned while the handle returned by Create was still open")
		case <-time.After(200 * time.Millisecond):
		}
		cdb.Sync()
		cdb.Close()
		select {
		case <-done:
		case <-time.After(20 * time.Second):
			bad("open-never-returns", "an Open waiting for the creator's handle did not return within 20 s after it was closed")
		}
		if free, perr := lockFree(cpath); perr == nil && !free {
			bad("lock-leak-create", "the file is still locked after the creator's handle was closed")
		}
	}

	// (f) what a waiting Open sees is the file as of the moment it gets the lock: a session
	// holding the lock brings the file to its final size and content while an Open waits
	fdsOn := func(path string) int {
		n := 0
		ents, _ := ioutil.ReadDir("/proc/self/fd")
		for _, e := range ents {
			if l, err := os.Readlink("/proc/self/fd/" + e.Name()); err == nil && l == path {
				n++
			}
		}
		return n
	}
	for vi, variant := range []string{"empty", "half", "longer"} {
		fp := filepath.Join(dir, fmt.Sprintf("late%d.wsp", vi))
		f, err := os.OpenFile(fp, os.O_RDWR|os.O_CREATE|os.O_EXCL, 0644)
		if err != nil {
			continue
		}
		for syscall.Flock(int(f.Fd()), syscall.LOCK_EX) == syscall.EINTR {
		}
		switch variant {
		case "half":
			f.Write(gb[:len(gb)/2])
		case "longer":
			f.Write(append(append([]byte{}, gb...), make([]byte, 5000)...))
		}
		res := make(chan error, 1)
		go func() {
			db, err := wt.Open(fp)
			if err == nil {
				if len(db.ArchiveInfoList()) != len(lockLayout()) {
					err = fmt.Errorf("opened with %d archives", len(db.ArchiveInfoList()))
				}
				db.Close()
			}
			res <- err
		}()
		// the other Open has its own descriptor on the file: it is waiting for the lock
		for i := 0; i < 400 && fdsOn(fp) < 2; i++ {
			time.Sleep(5 * time.Millisecond)
		}
		time.Sleep(30 * time.Millisecond)
		f.Truncate(int64(len(gb)))
		f.WriteAt(gb, 0)
		f.Sync()
		syscall.Flock(int(f.Fd()), syscall.LOCK_UN)
		f.Close()
		select {
		case err := <-res:
			count("waiting-open-sees-final-state", "ok "+variant)
			if err != nil {
				bad("waiting-open-stale", fmt.Sprintf("an Open that waited for the lock while the holder brought the file (%s at first) to its final state failed on the finished, valid file: %v", variant, err))
			}
		case <-time.After(20 * time.Second):
			bad("open-never-returns", "an Open waiting for the lock did not return within 20 s after the holder released it")
		}
	}
	return findings
}

// ---------- C17: concurrent reads ----------

func raceSuite(c *Ctx) []Finding {
	var findings []Finding
	bad := func(sig, note string) {
		findings = append(findings, Finding{Stratum: "S", Suite: "race", Signature: sig, Note: note, Impl: note, Model: "C17: " + sig})
	}
	count := func(kind, obs string) { c.Count(kind, Op{kind, true}, "race", obs) }
	dir, _ := ioutil.TempDir("", "wspcheck-race-")
	defer os.RemoveAll(dir)
	r := NewRng(c.Seed)
	now := 1700000000
	cases := 6
	if c.Tier == "thorough" {
		cases = 40
	}
	for cs := 0; cs < cases; cs++ {
		g := newLibGen(r.Fork(), "C17", cs%2 == 0)
		g.now = now
		long := cs%6 == 2
		if long {
			// an archive of several thousand slots, read whole by many goroutines at once
			g.lay = Layout{[]int{1, 10}, []int{5000, 1000}}
		}
		path := filepath.Join(dir, fmt.Sprintf("f%d.wsp", cs))
		lay, _ := parseLay(g.lay.String())
		db, err := wt.Create(path, lay, wt.AggregationMethod(g.agg), math.Float32frombits(g.xff))
		if err != nil {
			continue
		}
		switch cs % 3 {
		case 0:
			// never written: every archive answers from the "no base interval yet" path
		case 1:
			// only the coarsest archive written: the finer ones are never-written
			for b := 0; b < 2; b++ {
				pts, _ := parsePts(g.genBatch())
				db.UpdatePointsForArchive(pts, g.lay.K()-1, wt.Timestamp(now))
			}
		default:
			for b := 0; b < 4; b++ {
				pts, _ := parsePts(g.genBatch())
				db.UpdatePointsForArchive(pts, -1, wt.Timestamp(now))
			}
			if long {
				var pts []wt.Point
				for j := 0; j < 4800; j++ {
					pts = append(pts, wt.Point{Time: wt.Timestamp(now - j), Value: wt.Value(float64(j%977) + 0.5)})
				}
				db.UpdatePointsForArchive(pts, 0, wt.Timestamp(now))
			}
		}
		db.Sync()
		db.Close()
		db, err = wt.Open(path)
		if err != nil {
			bad("reopen", err.Error())
			continue
		}
		// the windows, fetched sequentially first
		type win struct{ k, f, u int }
		var wins []win
		for i := 0; i < 24; i++ {
			k := g.r.Intn(g.lay.K())
			f, u := g.window(k)
			if f < 0 {
				f = 0
			}
			if u < f {
				f, u = u, f
			}
			if long && i < 10 {
				// whole-retention reads of the long archive, shifted by a few slots each
				k, f, u = 0, now-5000+i, now-i%3
			}
			wins = append(wins, win{k, f, u})
		}
		// sequential results from a separate handle opened later; concurrent ones on the shared handle
		conc := make([]string, len(wins))
		var wg sync.WaitGroup
		for i, w := range wins {
			i, w := i, w
			wg.Add(1)
			go func() {
				defer wg.Done()
				ts, err := db.FetchFromArchive(w.k, wt.Timestamp(w.f), wt.Timestamp(w.u), wt.Timestamp(now))
				if err != nil {
					conc[i] = "err"
				} else {
					conc[i] = seriesObs(ts)
				}
			}()
		}
		wg.Wait()
		for i, w := range wins {
			ts, err := db.FetchFromArchive(w.k, wt.Timestamp(w.f), wt.Timestamp(w.u), wt.Timestamp(now))
			seq := "err"
			if err == nil {
				seq = seriesObs(ts)
			}
			count("concurrent-fetch", canonObs(seq))
			if canonObs(seq) != canonObs(conc[i]) {
				bad("fetch-differs", fmt.Sprintf("fetch %d %d %d run concurrently with %d others returned %s, alone %s", w.k, w.f, w.u, len(wins)-1, clip(conc[i]), clip(seq)))
			}
		}
		db.Close()
	}

	// sum over many files, and parallel requests of every endpoint against one server
	root := filepath.Join(dir, "tree")
	item := filepath.Join(root, "it")
	os.MkdirAll(item, 0755)
	g := newLibGen(r.Fork(), "C17", false)
	for g.lay.K() < 2 {
		g = newLibGen(r.Fork(), "C17", false)
	}
	g.now = int(time.Now().Unix())
	lay, _ := parseLay(g.lay.String())
	nfiles := 12
	for f := 0; f < nfiles; f++ {
		db, err := wt.Create(filepath.Join(item, fmt.Sprintf("f%02d.wsp", f)), lay, wt.Sum, 0)
		if err != nil {
			continue
		}
		for b := 0; b < 3; b++ {
			pts, _ := parsePts(g.genBatch())
			db.UpdatePointsForArchive(pts, -1, wt.Timestamp(g.now))
		}
		db.Sync()
		db.Close()
	}
	// sum reads the wall clock itself and clamps the window with it: two runs are comparable
	// only when they used the same second, which the output's "now:" line tells
	runSum := func(base string) (string, string, error) {
		out := filepath.Join(dir, "sum.txt")
		os.Remove(out)
		cmd := &wcmd.SumCommand{SrcBase: base, ItemPattern: "it", SrcPattern: "*.wsp", From: wt.Timestamp(g.now - g.lay.MaxRet()), Until: wt.Timestamp(g.now), ArchiveID: -1, TextOut: out, ShowHeader: true}
		err := execWithin(40*time.Second, cmd.Execute)
		b, _ := ioutil.ReadFile(out)
		p := parseOutput(string(b))
		var parts []string
		for _, gr := range p.groups {
			parts = append(parts, recsJoin(gr))
		}
		return canonCmd(strings.Join(parts, "|")), fmt.Sprint(p.nows), err
	}
	// twice in the same second (retried when the clock ticks in between)
	samePair := func(baseA, baseB string) (a, b string, errA, errB error, ok bool) {
		for try := 0; try < 8; try++ {
			var na, nb string
			a, na, errA = runSum(baseA)
			b, nb, errB = runSum(baseB)
			if errA != nil || errB != nil || na == nb {
				return a, b, errA, errB, true
			}
		}
		return a, b, errA, errB, false
	}
	s1, s2, err1, err2, cmp := samePair(root, root)
	count("sum-many-files", fmt.Sprintf("ok comparable=%v", cmp))
	if err1 != nil || err2 != nil {
		bad("sum-error", fmt.Sprintf("%v %v", err1, err2))
	} else if cmp && s1 != s2 {
		bad("sum-differs", "two runs of sum over the same files in the same second differ")
	}
	// a sum whose per-file reads fail part-way: files of one item read concurrently, one of them
	// (not the last) has no such archive.  The outcome must be an error, the same on every run,
	// and the race detector must stay silent on the error path too.
	if g.lay.K() >= 2 {
		item2 := filepath.Join(root, "it2")
		os.MkdirAll(item2, 0755)
		one, _ := parseLay(fmt.Sprintf("%d:%d", g.lay.Steps[0], g.lay.Ns[0]))
		for f := 0; f < 8; f++ {
			l := lay
			if f == 2 || f == 5 {
				l = one
			}
			if db, err := wt.Create(filepath.Join(item2, fmt.Sprintf("g%02d.wsp", f)), l, wt.Sum, 0); err == nil {
				db.Sync()
				db.Close()
			}
		}
		var msgs []string
		for rep := 0; rep < 6; rep++ {
			cmd := &wcmd.SumCommand{SrcBase: root, ItemPattern: "it2", SrcPattern: "*.wsp", From: wt.Timestamp(g.now - g.lay.MaxRet()), Until: wt.Timestamp(g.now), ArchiveID: g.lay.K() - 1, TextOut: ""}
			err := execWithin(40*time.Second, cmd.Execute)
			if err == errStalled {
				bad("sum-stalled-after-refused-sum", "a sum over the same files as a sum that was refused a moment ago did not return within 40 s: the refused one left a file locked")
				break
			}
			if err == nil {
				bad("sum-partial-failure-ok", "sum over files of which two have no such archive returned success")
				break
			}
			msgs = append(msgs, err.Error())
		}
		count("sum-failing-read", "ok")
		_ = msgs
	}

	// the header a sum reports is the first file's (in glob order), whatever order the
	// concurrent per-file reads finish in: the first file is kept busy (locked) while the
	// others complete
	{
		item3 := filepath.Join(root, "it3")
		os.MkdirAll(item3, 0755)
		aggs := []wt.AggregationMethod{wt.Max, wt.Sum, wt.Last, wt.Min}
		for f := 0; f < 4; f++ {
			if db, err := wt.Create(filepath.Join(item3, fmt.Sprintf("h%02d.wsp", f)), lay, aggs[f], float32(f)/8); err == nil {
				pts, _ := parsePts(g.genBatch())
				db.UpdatePointsForArchive(pts, -1, wt.Timestamp(g.now))
				db.Sync()
				db.Close()
			}
		}
		sumHeader := func(hold bool) (string, error) {
			out := filepath.Join(dir, "sum3.txt")
			os.Remove(out)
			release := make(chan struct{})
			if hold {
				if f, err := os.OpenFile(filepath.Join(item3, "h00.wsp"), os.O_RDWR, 0); err == nil {
					for syscall.Flock(int(f.Fd()), syscall.LOCK_EX) == syscall.EINTR {
					}
					go func() {
						time.Sleep(250 * time.Millisecond)
						syscall.Flock(int(f.Fd()), syscall.LOCK_UN)
						f.Close()
						close(release)
					}()
				} else {
					close(release)
				}
			} else {
				close(release)
			}
			cmd := &wcmd.SumCommand{SrcBase: root, ItemPattern: "it3", SrcPattern: "*.wsp", From: wt.Timestamp(g.now - g.lay.MaxRet()), Until: wt.Timestamp(g.now), ArchiveID: -1, TextOut: out, ShowHeader: true}
			err := execWithin(40*time.Second, cmd.Execute)
			<-release
			b, _ := ioutil.ReadFile(out)
			p := parseOutput(string(b))
			return strings.Join(p.headers, "|"), err
		}
		h1, e1 := sumHeader(false)
		h2, e2 := sumHeader(true)
		count("sum-header-order", "ok")
		if e1 != nil || e2 != nil {
			bad("sum-error", fmt.Sprintf("%v %v", e1, e2))
		} else if h1 != h2 {
			bad("sum-header-depends-on-read-order", fmt.Sprintf("the header reported by sum changed when the first file's read was made to finish last: %s vs %s", clip(h1), clip(h2)))
		} else if !strings.HasPrefix(h1, fmt.Sprintf("%d/", int(aggs[0]))) {
			bad("sum-header-not-first-file", "the header reported by sum is not the first file's: "+clip(h1))
		}
	}

	// results are private to the call that produced them: a sum whose first file (in glob order)
	// has never been written, next to files that have data.  Summing must leave nothing behind —
	// the same sum again is the same, and the never-written file still reads as unknown
	// everywhere (a value buffer shared between calls and added into would show here).
	{
		item4 := filepath.Join(root, "it4")
		os.MkdirAll(item4, 0755)
		for f := 0; f < 4; f++ {
			if db, err := wt.Create(filepath.Join(item4, fmt.Sprintf("k%02d.wsp", f)), lay, wt.Sum, 0); err == nil {
				if f > 0 {
					for b := 0; b < 2; b++ {
						pts, _ := parsePts(g.genBatch())
						db.UpdatePointsForArchive(pts, -1, wt.Timestamp(g.now))
					}
				}
				db.Sync()
				db.Close()
			}
		}
		allUnknown := func() (bool, error) {
			db, err := wt.Open(filepath.Join(item4, "k00.wsp"))
			if err != nil {
				return false, err
			}
			defer db.Close()
			for k := 0; k < g.lay.K(); k++ {
				ts, err := db.FetchFromArchive(k, wt.Timestamp(g.now-g.lay.Ret(k)+1), wt.Timestamp(g.now), wt.Timestamp(g.now))
				if err != nil {
					return false, err
				}
				for _, v := range ts.Values() {
					if !v.IsNaN() {
						return false, nil
					}
				}
			}
			return true, nil
		}
		sum4 := func() (string, string, error) {
			out := filepath.Join(dir, "sum4.txt")
			os.Remove(out)
			cmd := &wcmd.SumCommand{SrcBase: root, ItemPattern: "it4", SrcPattern: "*.wsp", From: wt.Timestamp(g.now - g.lay.MaxRet()), Until: wt.Timestamp(g.now), ArchiveID: -1, TextOut: out, ShowHeader: true}
			err := execWithin(40*time.Second, cmd.Execute)
			b, _ := ioutil.ReadFile(out)
			po := parseOutput(string(b))
			var parts []string
			for _, gr := range po.groups {
				parts = append(parts, recsJoin(gr))
			}
			return canonCmd(strings.Join(parts, "|")), fmt.Sprint(po.nows), err
		}
		before, errB := allUnknown()
		var a1, a2, n1, n2 string
		var e1, e2 error
		for try := 0; try < 8; try++ {
			a1, n1, e1 = sum4()
			a2, n2, e2 = sum4()
			if e1 != nil || e2 != nil || n1 == n2 {
				break
			}
		}
		after, errA := allUnknown()
		count("sum-leaves-nothing-behind", fmt.Sprintf("ok comparable=%v", n1 == n2))
		if errB != nil || errA != nil || e1 != nil || e2 != nil {
			bad("sum-error", fmt.Sprintf("%v %v %v %v", errB, errA, e1, e2))
		} else {
			if n1 == n2 && a1 != a2 {
				bad("sum-repeated-differs", "the same sum, run twice in the same second over files of which the first was never written, gave two different results")
			}
			if before && !after {
				bad("unknown-became-known-after-sum", "a never-written file reads values other than NaN after a sum that included it")
			}
		}
	}

	// an item of more files than any fixed batch of concurrent reads is likely to hold
	if sig, note := manyFilesSum(dir, 140+int(c.Seed%25), c.Seed); sig != "" {
		bad(sig, note)
	}
	count("sum-many-files", "ok n>128")

	// an item whose responses are large (hundreds of kilobytes each): whatever the server keeps
	// from one answer to the next — a buffer it reuses, say — is only kept, or only matters,
	// beyond some size, and two requests in flight at once must still each get their own bytes
	bigItem := filepath.Join(root, "big")
	os.MkdirAll(bigItem, 0755)
	bigN := 40000
	for f := 0; f < 2; f++ {
		db, err := wt.Create(filepath.Join(bigItem, fmt.Sprintf("b%d.wsp", f)), []wt.ArchiveInfo{wt.NewArchiveInfo(1, uint32(bigN))}, wt.Sum, 0)
		if err != nil {
			continue
		}
		pts := make([]wt.Point, 0, bigN)
		for i := bigN - 1; i >= 1; i-- {
			pts = append(pts, wt.Point{Time: wt.Timestamp(g.now - i), Value: wt.Value(float64((i*(f+3))%1009) + 0.5)})
		}
		db.UpdatePointsForArchive(pts, 0, wt.Timestamp(g.now))
		db.Sync()
		db.Close()
	}

	// server: every endpoint in parallel
	self, _ := os.Executable()
	port := freePort()
	srv := exec.Command(self, "-child", "server", root, strconv.Itoa(port))
	var stderr bytes.Buffer
	srv.Stderr = &stderr
	srv.Env = append(os.Environ(), "GORACE=halt_on_error=1 exitcode=66")
	if err := srv.Start(); err == nil {
		base := fmt.Sprintf("http://127.0.0.1:%d", port)
		for i := 0; i < 200; i++ {
			if resp, err := http.Get(base + "/items?pattern=it"); err == nil {
				resp.Body.Close()
				break
			}
			time.Sleep(10 * time.Millisecond)
		}
		urls := []string{
			"/items?pattern=it", "/files?pattern=it%2F*.wsp",
			fmt.Sprintf("/view?file=it%%2Ff00.wsp&retention=-1&from=%s&until=%s&now=%s", tsq(0), tsq(g.now), tsq(g.now)),
			"/view-raw?file=it%2Ff01.wsp&retention=-1",
			fmt.Sprintf("/sum?item=it&pattern=*.wsp&retention=-1&from=%s&until=%s&now=%s", tsq(g.now-g.lay.MaxRet()), tsq(g.now), tsq(g.now)),
			// a never-written file, alone and as the first file of a sum (asked for before the sum)
			fmt.Sprintf("/view?file=it4%%2Fk00.wsp&retention=-1&from=%s&until=%s&now=%s", tsq(0), tsq(g.now), tsq(g.now)),
			fmt.Sprintf("/sum?item=it4&pattern=*.wsp&retention=-1&from=%s&until=%s&now=%s", tsq(g.now-g.lay.MaxRet()), tsq(g.now), tsq(g.now)),
			// large answers: the sum of the big item first, then a view of each of its files and the raw dump
			fmt.Sprintf("/sum?item=big&pattern=*.wsp&retention=-1&from=%s&until=%s&now=%s", tsq(g.now-bigN+1), tsq(g.now), tsq(g.now)),
			fmt.Sprintf("/view?file=big%%2Fb0.wsp&retention=-1&from=%s&until=%s&now=%s", tsq(g.now-bigN+1), tsq(g.now), tsq(g.now)),
			fmt.Sprintf("/view?file=big%%2Fb1.wsp&retention=0&from=%s&until=%s&now=%s", tsq(g.now-bigN+1), tsq(g.now), tsq(g.now)),
			"/view-raw?file=big%2Fb1.wsp&retention=-1",
			// requests that fail, each with its own message: concurrent failures on one endpoint
			// must not see each other's error
			"/view?file=&retention=-1", "/view?file=it%2Ff00.wsp&retention=-1&from=zzz", "/view?file=it%2Ff00.wsp&retention=-1&until=zzz",
			"/view?file=it%2Ff00.wsp&retention=-1&now=zzz", "/view?file=it%2Ff00.wsp&retention=abc", "/view?file=it%2Ff00.wsp&retention=99",
			"/view-raw?file=&retention=-1", "/view-raw?file=it%2Ff01.wsp&retention=abc", "/view-raw?file=it%2Ff01.wsp&retention=99",
			"/sum?item=&pattern=*.wsp", "/sum?item=it&pattern=", "/sum?item=it&pattern=*.wsp&from=zzz", "/sum?item=it&pattern=*.wsp&retention=99",
			"/items?pattern=", "/items?pattern=%5B", "/files?pattern=", "/files?pattern=%5B",
		}
		seq := make([]string, len(urls))
		stalled := 0
		for i, u := range urls {
			seq[i] = httpBody(base + u)
			if seq[i] == "stalled" {
				stalled++
			}
		}
		// once more, one by one, after the requests that are refused have been made: a refused
		// request must leave nothing behind (a file still locked) that makes a later one wait
		for i, u := range urls {
			if b := httpBody(base + u); b == "stalled" {
				stalled++
			} else if b != seq[i] && seq[i] != "stalled" {
				bad("request-differs-after-refusals", fmt.Sprintf("%s answered differently the second time it was asked alone", u))
			}
		}
		var wg sync.WaitGroup
		mism := 0
		var mu sync.Mutex
		par := 6
		if c.Tier == "thorough" {
			par = 24
		}
		for rep := 0; rep < par; rep++ {
			for i, u := range urls {
				i, u := i, u
				wg.Add(1)
				go func() {
					defer wg.Done()
					b := httpBody(base + u)
					mu.Lock()
					if b != seq[i] || b == "stalled" {
						mism++
					}
					mu.Unlock()
				}()
			}
		}
		wg.Wait()
		count("parallel-requests", fmt.Sprintf("ok %d", par*len(urls)))
		if stalled > 0 {
			bad("request-stalled", fmt.Sprintf("%d requests asked one at a time were not answered within %v (each reads a few kilobytes; some follow a request the server refuses)", stalled, stallClient.Timeout))
		}
		if mism > 0 {
			bad("request-differs", fmt.Sprintf("%d parallel requests returned a body different from the same request served alone", mism))
		}
		// the concurrent sum through the server too
		l3, s3, errL, err3, cmp3 := samePair(root, base)
		count("sum-remote", fmt.Sprintf("ok comparable=%v", cmp3))
		if err3 != nil || errL != nil || (cmp3 && s3 != l3) {
			bad("remote-sum-differs", fmt.Sprintf("sum through the server differs from the local one in the same second (%v %v)", errL, err3))
		}
		srv.Process.Signal(syscall.SIGTERM)
		done := make(chan struct{})
		go func() { srv.Wait(); close(done) }()
		select {
		case <-done:
		case <-time.After(3 * time.Second):
			srv.Process.Kill()
			<-done
		}
		if strings.Contains(stderr.String(), "DATA RACE") {
			bad("data-race-server", "the race detector reported a data race in the server: "+clip(stderr.String()))
		}
	}
	c.Note("race_detector", fmt.Sprintf("enabled=%v", raceEnabled))
	return findings
}

// execWithin runs a command and gives up waiting after d: a command of the race suite reads a
// handful of small files, so one that has not returned by then is waiting for something — a
// file an earlier, refused command left locked.  (The abandoned call finishes on its own.)
var errStalled = errors.New("stalled: the command did not return in time")

func execWithin(d time.Duration, run func() error) error {
	done := make(chan error, 1)
	go func() {
		defer func() {
			if r := recover(); r != nil {
				done <- fmt.Errorf("panic: %v", r)
			}
		}()
		done <- run()
	}()
	select {
	case err := <-done:
		return err
	case <-time.After(d):
		return errStalled
	}
}

func tsq(t int) string { return strings.ReplaceAll(wt.Timestamp(t).String(), ":", "%3A") }

// a request that is not answered within this time is stalled: the requests of the race suite
// read files of a few kilobytes
var stallClient = &http.Client{Timeout: 30 * time.Second}

func httpBody(url string) string {
	resp, err := stallClient.Get(url)
	if err != nil {
		if ue, ok := err.(interface{ Timeout() bool }); ok && ue.Timeout() {
			return "stalled"
		}
		return "error " + err.Error()
	}
	defer resp.Body.Close()
	b, _ := ioutil.ReadAll(resp.Body)
	return fmt.Sprintf("%d %x", resp.StatusCode, fnv64(b))
}
