package main

import (
	"encoding/binary"
	"encoding/hex"
	"errors"
	"fmt"
	"io/ioutil"
	"math"
	"os"
	"path/filepath"
	"strconv"
	"strings"

	wt "github.com/hnakamur/whispertool"
)

// ImplLib executes library operations on the real code, in-process.
type ImplLib struct {
	dir  string
	path string
	db   *wt.Whisper
	// hostile-file stream: an update that fails half-way on a damaged file may leave some of
	// its writes in the buffer (the model returns the handle unchanged); what the buffer
	// holds after that is not specified by any property, so content observations are
	// reported as "tainted" on both sides until the handle is replaced
	taintMode, tainted bool
	lastPtsStr         string
	lastPts            []wt.Point
}

func NewImplLib() *ImplLib {
	dir, err := ioutil.TempDir("", "wspcheck-lib-")
	if err != nil {
		panic(err)
	}
	return &ImplLib{dir: dir, path: filepath.Join(dir, "f.wsp")}
}

func (m *ImplLib) Cleanup() {
	if m.db != nil {
		m.db.Close()
		m.db = nil
	}
	os.RemoveAll(m.dir)
}

func errObs(err error) string {
	if err == nil {
		return "ok"
	}
	if os.IsNotExist(err) {
		return "err notexist"
	}
	if os.IsExist(err) {
		return "err exists"
	}
	var wl *wt.WantLargerBufferError
	if errors.As(err, &wl) {
		return fmt.Sprintf("want %d", wl.WantedBufSize)
	}
	return "err"
}

func parseLay(s string) ([]wt.ArchiveInfo, error) {
	if s == "-" {
		return nil, nil
	}
	var out []wt.ArchiveInfo
	for _, part := range strings.Split(s, ",") {
		ab := strings.Split(part, ":")
		if len(ab) != 2 {
			return nil, fmt.Errorf("bad layout %q", s)
		}
		st, err := strconv.ParseInt(ab[0], 10, 32)
		if err != nil {
			return nil, err
		}
		n, err := strconv.ParseUint(ab[1], 10, 32)
		if err != nil {
			return nil, err
		}
		out = append(out, wt.NewArchiveInfo(wt.Duration(st), uint32(n)))
	}
	return out, nil
}

func valHex(v wt.Value) string {
	return fmt.Sprintf("%016x", math.Float64bits(float64(v)))
}

func parseValHex(s string) (wt.Value, error) {
	u, err := strconv.ParseUint(s, 16, 64)
	if err != nil {
		return 0, err
	}
	return wt.Value(math.Float64frombits(u)), nil
}

func ptsStr(ps []wt.Point) string {
	if len(ps) == 0 {
		return "-"
	}
	var b strings.Builder
	for i, p := range ps {
		if i > 0 {
			b.WriteByte(',')
		}
		fmt.Fprintf(&b, "%d:%s", uint32(p.Time), valHex(p.Value))
	}
	return b.String()
}

func parsePts(s string) ([]wt.Point, error) {
	if s == "-" {
		return nil, nil
	}
	var out []wt.Point
	for _, part := range strings.Split(s, ",") {
		ab := strings.Split(part, ":")
		if len(ab) != 2 {
			return nil, fmt.Errorf("bad points %q", s)
		}
		t, err := strconv.ParseUint(ab[0], 10, 32)
		if err != nil {
			return nil, err
		}
		v, err := parseValHex(ab[1])
		if err != nil {
			return nil, err
		}
		out = append(out, wt.Point{Time: wt.Timestamp(t), Value: v})
	}
	return out, nil
}

func valsStr(vs []wt.Value) string {
	if len(vs) == 0 {
		return "-"
	}
	var b strings.Builder
	for i, v := range vs {
		if i > 0 {
			b.WriteByte(',')
		}
		b.WriteString(valHex(v))
	}
	return b.String()
}

func seriesObs(ts *wt.TimeSeries) string {
	if ts == nil {
		return "none"
	}
	return fmt.Sprintf("ok %d %d %d %s", uint32(ts.FromTime()), uint32(ts.UntilTime()), int32(ts.Step()), valsStr(ts.Values()))
}

func headerObs(h *wt.Header) string {
	var parts []string
	// offsets are not exported; recover them from the encoded header
	buf := h.AppendTo(nil)
	for i := range h.ArchiveInfoList() {
		a := &h.ArchiveInfoList()[i]
		off := binary.BigEndian.Uint32(buf[16+12*i:])
		parts = append(parts, fmt.Sprintf("%d:%d:%d", off, int32(a.SecondsPerPoint()), a.NumberOfPoints()))
	}
	as := "-"
	if len(parts) > 0 {
		as = strings.Join(parts, ",")
	}
	return fmt.Sprintf("%d %d %08x %d %s", int(h.AggregationMethod()), int32(h.MaxRetention()),
		math.Float32bits(h.XFilesFactor()), binary.BigEndian.Uint32(buf[12:]), as)
}

const fnvOffset = 0xcbf29ce484222325
const fnvPrime = 0x100000001b3

func fnv64(bs []byte) uint64 {
	h := uint64(fnvOffset)
	for _, b := range bs {
		h ^= uint64(b)
		h *= fnvPrime
	}
	return h
}

// canonHash: header bytes exact, then 12-byte slots with NaN values canonicalised.
func canonHash(hdr int, b []byte) string {
	c := make([]byte, len(b))
	copy(c, b)
	if hdr > len(c) {
		hdr = len(c)
	}
	for off := hdr; off+12 <= len(c); off += 12 {
		v := binary.BigEndian.Uint64(c[off+4:])
		if v>>52&0x7ff == 0x7ff && v&0xfffffffffffff != 0 {
			binary.BigEndian.PutUint64(c[off+4:], 0x7ff8000000000000)
		}
	}
	return fmt.Sprintf("%d %016x", len(c), fnv64(c))
}

// Exec runs one operation line on the real code and returns its observation.
func (m *ImplLib) Exec(line string) string {
	tk := strings.Fields(line)
	if len(tk) == 0 {
		return "bad-op"
	}
	if tk[0] == "taintmode" {
		m.taintMode = true
		return "ok"
	}
	obs := m.exec1(line)
	switch tk[0] {
	case "reset":
		m.taintMode, m.tainted = false, false
	case "resetfile", "use", "create", "createover", "open", "setdisk", "rmdisk", "drop":
		m.tainted = false
	case "upd", "updmany":
		if m.taintMode && obs != "ok" && obs != "nohandle" && !strings.HasPrefix(obs, "panic") {
			m.tainted = true
		}
	case "fetch", "raw", "view":
		if m.tainted && !strings.HasPrefix(obs, "panic") {
			return "tainted"
		}
	}
	return obs
}

func (m *ImplLib) exec1(line string) (obs string) {
	defer func() {
		if r := recover(); r != nil {
			obs = "panic"
		}
	}()
	tk := strings.Fields(line)
	if len(tk) == 0 {
		return "bad-op"
	}
	needDB := func() bool { return m.db != nil }
	switch tk[0] {
	case "reset":
		if m.db != nil {
			m.db.Close()
			m.db = nil
		}
		os.Remove(m.path)
		return "ok"
	case "create":
		lay, err := parseLay(tk[1])
		if err != nil {
			return "bad-op"
		}
		agg, _ := strconv.Atoi(tk[2])
		xb, _ := strconv.ParseUint(tk[3], 16, 32)
		if m.db != nil {
			m.db.Close()
			m.db = nil
		}
		db, err := wt.Create(m.path, lay, wt.AggregationMethod(agg), math.Float32frombits(uint32(xb)))
		if err != nil {
			return errObs(err)
		}
		m.db = db
		return "ok"
	case "createover":
		// Create with an open flag that allows an existing file (no O_EXCL, no O_TRUNC)
		lay, err := parseLay(tk[1])
		if err != nil {
			return "bad-op"
		}
		agg, _ := strconv.Atoi(tk[2])
		xb, _ := strconv.ParseUint(tk[3], 16, 32)
		if m.db != nil {
			m.db.Close()
			m.db = nil
		}
		db, err := wt.Create(m.path, lay, wt.AggregationMethod(agg), math.Float32frombits(uint32(xb)),
			wt.WithOpenFileFlag(os.O_RDWR|os.O_CREATE))
		if err != nil {
			return errObs(err)
		}
		m.db = db
		return "ok"
	case "open":
		if m.db != nil {
			m.db.Close()
			m.db = nil
		}
		db, err := wt.Open(m.path)
		if err != nil {
			return errObs(err)
		}
		m.db = db
		return "ok"
	case "setdisk":
		if m.db != nil {
			m.db.Close()
			m.db = nil
		}
		var b []byte
		if tk[1] != "-" {
			var err error
			b, err = hex.DecodeString(tk[1])
			if err != nil {
				return "bad-op"
			}
		}
		if err := ioutil.WriteFile(m.path, b, 0644); err != nil {
			return "harness-error " + err.Error()
		}
		return "ok"
	case "rmdisk":
		if m.db != nil {
			m.db.Close()
			m.db = nil
		}
		os.Remove(m.path)
		return "ok"
	case "sync":
		if !needDB() {
			return "nohandle"
		}
		return errObs(m.db.Sync())
	case "drop":
		if m.db != nil {
			m.db.Close()
			m.db = nil
		}
		return "ok"
	case "upd":
		if !needDB() {
			return "nohandle"
		}
		k, _ := strconv.Atoi(tk[1])
		t, _ := strconv.ParseUint(tk[2], 10, 32)
		v, _ := parseValHex(tk[3])
		now, _ := strconv.ParseUint(tk[4], 10, 32)
		return errObs(m.db.UpdatePointForArchive(k, wt.Timestamp(t), v, wt.Timestamp(now)))
	case "updmany":
		if !needDB() {
			return "nohandle"
		}
		k, _ := strconv.Atoi(tk[1])
		now, _ := strconv.ParseUint(tk[2], 10, 32)
		// a caller may well hand the same slice to two calls: when the batch is literally the one
		// of the previous batch update, the very slice that call was given is passed again —
		// whatever the library did to it
		pts := m.lastPts
		if tk[3] != m.lastPtsStr || pts == nil {
			var err error
			pts, err = parsePts(tk[3])
			if err != nil {
				return "bad-op"
			}
			m.lastPtsStr, m.lastPts = tk[3], pts
		}
		return errObs(m.db.UpdatePointsForArchive(pts, k, wt.Timestamp(now)))
	case "fetch":
		if !needDB() {
			return "nohandle"
		}
		k, _ := strconv.Atoi(tk[1])
		f, _ := strconv.ParseUint(tk[2], 10, 32)
		u, _ := strconv.ParseUint(tk[3], 10, 32)
		now, _ := strconv.ParseUint(tk[4], 10, 32)
		ts, err := m.db.FetchFromArchive(k, wt.Timestamp(f), wt.Timestamp(u), wt.Timestamp(now))
		if err != nil {
			return errObs(err)
		}
		return seriesObs(ts)
	case "raw":
		if !needDB() {
			return "nohandle"
		}
		k, _ := strconv.Atoi(tk[1])
		ps, err := m.db.GetAllRawUnsortedPoints(k)
		if err != nil {
			return errObs(err)
		}
		return "ok " + ptsStr(ps)
	case "header":
		if !needDB() {
			return "nohandle"
		}
		return "ok " + headerObs(m.db.Header())
	case "disk":
		hdr, _ := strconv.Atoi(tk[1])
		b, err := ioutil.ReadFile(m.path)
		if err != nil {
			if os.IsNotExist(err) {
				return "none"
			}
			return "harness-error " + err.Error()
		}
		return "ok " + canonHash(hdr, b)
	case "gwfetch", "gwmeta":
		return m.execGw(tk)
	case "diskhex":
		b, err := ioutil.ReadFile(m.path)
		if err != nil {
			return "none"
		}
		if len(b) == 0 {
			return "ok -"
		}
		return "ok " + hex.EncodeToString(b)
	}
	return "bad-op"
}

// canonObs maps an observation (from either side) to the form that is compared:
// error kinds other than not-exist collapse to "err"; every NaN prints as "nan".
func canonObs(s string) string {
	if strings.HasPrefix(s, "err") {
		if s == "err notexist" || s == "err exists" {
			return s
		}
		return "err"
	}
	if strings.HasPrefix(s, "ok ") && strings.Contains(s, "7ff") || strings.Contains(s, "fff") {
		f := strings.Fields(s)
		for i, w := range f {
			if strings.ContainsAny(w, ",:") || len(w) == 16 {
				f[i] = canonVals(w)
			}
		}
		return strings.Join(f, " ")
	}
	return s
}

func isNaNHex(h string) bool {
	if len(h) != 16 {
		return false
	}
	u, err := strconv.ParseUint(h, 16, 64)
	if err != nil {
		return false
	}
	return u>>52&0x7ff == 0x7ff && u&0xfffffffffffff != 0
}

func canonVals(w string) string {
	parts := strings.Split(w, ",")
	for i, p := range parts {
		if j := strings.IndexByte(p, ':'); j >= 0 {
			if isNaNHex(p[j+1:]) {
				parts[i] = p[:j+1] + "nan"
			}
		} else if isNaNHex(p) {
			parts[i] = "nan"
		}
	}
	return strings.Join(parts, ",")
}
