package main

import (
	"bytes"
	"flag"
	"hash/fnv"
	"strconv"

	wt "github.com/hnakamur/whispertool"
	wcmd "github.com/hnakamur/whispertool/cmd"
)

// The real CLI reaches Execute through Parse.  For one op line in three (decided by a hash
// of the line, so that a replay takes the same route) the command the harness built field by
// field is turned into the argument list that says the same — values equal to the documented
// default of a flag are left out — and the command that Parse makes of those arguments is
// run instead.  A flag wired to the wrong field, a changed default or a value parser that
// reads something else then shows as the same divergence a wrong Execute would show.  When
// Parse refuses the arguments (it wants -until whenever -from is given, for one) or a flag
// value is rejected, the field-by-field command runs as before.
func viaFlagsWanted(line string) bool {
	h := fnv.New32a()
	h.Write([]byte(line))
	return h.Sum32()%3 == 0
}

type argList []string

func (a *argList) str(name, v, def string) {
	if v != def {
		*a = append(*a, "-"+name, v)
	}
}
func (a *argList) ts(name string, t wt.Timestamp) {
	if t != 0 {
		*a = append(*a, "-"+name, t.String())
	}
}
func (a *argList) num(name string, v, def int) {
	if v != def {
		*a = append(*a, "-"+name, strconv.Itoa(v))
	}
}
func (a *argList) boolean(name string, v, def bool) {
	if v != def {
		*a = append(*a, "-"+name+"="+strconv.FormatBool(v))
	}
}

func viaFlags(c wcmd.Command) (wcmd.Command, bool) {
	var a argList
	var fresh wcmd.Command
	switch x := c.(type) {
	case *wcmd.ViewCommand:
		a.str("src-base", x.SrcBase, "")
		a.str("src", x.SrcRelPath, "")
		a.ts("from", x.From)
		a.ts("until", x.Until)
		a.num("archive", x.ArchiveID, -1)
		a = append(a, "-text-out", x.TextOut)
		a.boolean("header", x.ShowHeader, true)
		fresh = &wcmd.ViewCommand{}
	case *wcmd.ViewRawCommand:
		a.str("src-base", x.SrcBase, "")
		a.str("src", x.SrcRelPath, "")
		a.ts("from", x.From)
		a.ts("until", x.Until)
		a.num("archive", x.ArchiveID, -1)
		a = append(a, "-text-out", x.TextOut)
		a.boolean("header", x.ShowHeader, true)
		a.boolean("sort", x.SortsByTime, false)
		fresh = &wcmd.ViewRawCommand{}
	case *wcmd.DiffCommand:
		a.str("src-base", x.SrcBase, "")
		a.str("src", x.SrcRelPath, "")
		a.str("dest-base", x.DestBase, "")
		a.str("dest", x.DestRelPath, "")
		a.ts("from", x.From)
		a.ts("until", x.Until)
		a.num("archive", x.ArchiveID, -1)
		a = append(a, "-text-out", x.TextOut)
		fresh = &wcmd.DiffCommand{}
	case *wcmd.CopyCommand:
		a.str("src-base", x.SrcBase, "")
		a.str("src", x.SrcRelPath, "")
		a.str("dest-base", x.DestBase, "")
		a.str("dest", x.DestRelPath, "")
		a = append(a, "-agg-method", x.AggregationMethod.String(), "-x-files-factor", strconv.FormatFloat(float64(x.XFilesFactor), 'g', -1, 32),
			"-retentions", x.ArchiveInfoList.String())
		a.ts("from", x.From)
		a.ts("until", x.Until)
		a.num("archive", x.ArchiveID, -1)
		a = append(a, "-text-out", x.TextOut)
		a.boolean("copy-nan", x.CopyNaN, false)
		fresh = &wcmd.CopyCommand{}
	case *wcmd.SumCommand:
		a.str("src-base", x.SrcBase, "")
		a.str("item", x.ItemPattern, "")
		a.str("src", x.SrcPattern, "")
		a.ts("from", x.From)
		a.ts("until", x.Until)
		a.num("archive", x.ArchiveID, -1)
		a = append(a, "-text-out", x.TextOut)
		a.boolean("header", x.ShowHeader, true)
		fresh = &wcmd.SumCommand{}
	case *wcmd.SumCopyCommand:
		a.str("src-base", x.SrcBase, "")
		a.str("item", x.ItemPattern, "")
		a.str("src", x.SrcPattern, "")
		a.str("dest-base", x.DestBase, "")
		a.str("dest", x.DestRelPath, "")
		a = append(a, "-agg-method", x.AggregationMethod.String(), "-x-files-factor", strconv.FormatFloat(float64(x.XFilesFactor), 'g', -1, 32),
			"-retentions", x.ArchiveInfoList.String())
		a.ts("from", x.From)
		a.ts("until", x.Until)
		a.num("archive", x.ArchiveID, -1)
		a = append(a, "-text-out", x.TextOut)
		fresh = &wcmd.SumCopyCommand{}
	case *wcmd.SumDiffCommand:
		a.str("src-base", x.SrcBase, "")
		a.str("item", x.ItemPattern, "")
		a.str("src", x.SrcPattern, "")
		a.str("dest-base", x.DestBase, "")
		a.str("dest", x.DestRelPath, "")
		a.ts("from", x.From)
		a.ts("until", x.Until)
		a.num("archive", x.ArchiveID, -1)
		a = append(a, "-text-out", x.TextOut)
		fresh = &wcmd.SumDiffCommand{}
	default:
		return c, false
	}
	fs := flag.NewFlagSet("whispertool", flag.ContinueOnError)
	var msgs bytes.Buffer
	fs.SetOutput(&msgs)
	if err := fresh.Parse(fs, a); err != nil || msgs.Len() > 0 || fs.NArg() > 0 {
		return c, false
	}
	return fresh, true
}
