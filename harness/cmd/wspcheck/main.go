package main

import (
	"bufio"
	"encoding/json"
	"flag"
	"fmt"
	"io/ioutil"
	"os"
	"path/filepath"
	"runtime"
	"sort"
	"strings"
	"sync"
	"time"
)

// Suite is one correspondence stream: a generator of operation sequences, an executor
// for the real code and a canonicaliser for observations.
type Suite struct {
	Name   string
	MkExec func() Executor
	Canon  func(string) string
	Gen    func(r *Rng, i int, tier string) []Op
	Cases  func(tier string) int
	// Classify decides whether a divergence is spec-level; nil = the op's S flag.
	Classify Classifier
	// Post is a property-level assertion over the implementation's observations alone.
	Post PostCheck
	// Custom suites (concurrency, commands at the wall clock, ...) run themselves.
	Custom func(c *Ctx) []Finding
}

type Finding struct {
	Stratum   string   `json:"stratum"` // "S" property-level, "M" model fidelity
	Suite     string   `json:"suite"`
	Ops       []string `json:"ops"`
	Impl      string   `json:"impl"`
	Model     string   `json:"model"`
	Note      string   `json:"note,omitempty"`
	Signature string   `json:"signature"`
	Replay    string   `json:"replay,omitempty"`
}

type Result struct {
	Property    string            `json:"property"`
	Tier        string            `json:"tier"`
	Seed        uint64            `json:"seed"`
	Evaluations int               `json:"evaluations"`
	Cases       int               `json:"cases"`
	Distinct    int               `json:"distinct_nontrivial"`
	SOps        int               `json:"s_observations"`
	MOps        int               `json:"m_observations"`
	Hist        map[string]int    `json:"histogram"`
	Samples     []string          `json:"samples"`
	Findings    []Finding         `json:"findings"`
	Suites      []string          `json:"suites"`
	Notes       map[string]string `json:"notes,omitempty"`
	WallS       float64           `json:"wall_s"`
}

type Ctx struct {
	Prop     string
	Tier     string
	Seed     uint64
	VerifDir string
	Stats    *Stats
	mu       sync.Mutex
	Notes    map[string]string
}

func (c *Ctx) Note(k, v string) {
	c.mu.Lock()
	c.Notes[k] = v
	c.mu.Unlock()
}

func (c *Ctx) Count(kind string, op Op, ctx string, obs string) {
	c.mu.Lock()
	c.Stats.record(ctx, op, obs)
	c.mu.Unlock()
}

func mergeStats(dst, src *Stats) {
	dst.Evaluations += src.Evaluations
	dst.Cases += src.Cases
	dst.SOps += src.SOps
	dst.MOps += src.MOps
	for k, v := range src.ByKind {
		dst.ByKind[k] += v
	}
	for k := range src.Classes {
		dst.Classes[k] = true
	}
	for k, v := range src.Hist {
		dst.Hist[k] += v
	}
	if len(dst.Samples) < 6 {
		dst.Samples = append(dst.Samples, src.Samples...)
		if len(dst.Samples) > 6 {
			dst.Samples = dst.Samples[:6]
		}
	}
}

func loadCorpus(dir string) [][]Op {
	files, _ := filepath.Glob(filepath.Join(dir, "*.ops"))
	sort.Strings(files)
	var out [][]Op
	for _, f := range files {
		fh, err := os.Open(f)
		if err != nil {
			continue
		}
		var ops []Op
		sc := bufio.NewScanner(fh)
		sc.Buffer(make([]byte, 1<<20), 1<<24)
		for sc.Scan() {
			line := sc.Text()
			s := false
			if j := strings.Index(line, "#"); j >= 0 {
				s = strings.Contains(line[j:], "S")
				line = line[:j]
			}
			line = strings.TrimSpace(line)
			if line == "" {
				continue
			}
			ops = append(ops, Op{line, s})
		}
		fh.Close()
		out = append(out, ops)
	}
	return out
}

func signature(ops []Op, dv *Divergence) string { return divSig(dv) }

func runSuite(c *Ctx, s Suite) []Finding {
	if s.Custom != nil {
		return s.Custom(c)
	}
	currentPost = s.Post
	defer func() { currentPost = nil }()
	var findings []Finding
	var fmu sync.Mutex
	addFinding := func(ops []Op, dv *Divergence) {
		sops, sdv := shrink(s.MkExec, ops, s.Canon, s.Classify, dv.S, divSig(dv))
		if sdv == nil {
			sops, sdv = ops[:dv.Index+1], dv
		}
		st := "M"
		if sdv.S {
			st = "S"
		}
		fmu.Lock()
		note := ""
		if sdv.MLine != sdv.Op.Line {
			note = "line given to the model: " + sdv.MLine
		}
		findings = append(findings, Finding{Stratum: st, Suite: s.Name, Ops: opsLines(sops),
			Impl: sdv.Impl, Model: sdv.Model, Signature: signature(sops, sdv), Note: note})
		fmu.Unlock()
	}

	// corpus first
	var cases [][]Op
	for _, ops := range loadCorpus(filepath.Join(c.VerifDir, "corpus", c.Prop, s.Name)) {
		cases = append(cases, ops)
	}
	nCorpus := len(cases)
	n := s.Cases(c.Tier)
	workers := runtime.NumCPU()
	if workers > 16 {
		workers = 16
	}
	if c.Tier == "quick" && workers > 8 {
		workers = 8
	}
	type job struct {
		i   int
		ops []Op
	}
	jobs := make(chan job)
	var wg sync.WaitGroup
	stop := false
	for w := 0; w < workers; w++ {
		wg.Add(1)
		go func() {
			defer wg.Done()
			ex := s.MkExec()
			defer ex.Cleanup()
			d := mustDrv()
			defer d.Close()
			local := NewStats()
			for j := range jobs {
				fmu.Lock()
				tooMany := len(findings) >= 3 || stop
				fmu.Unlock()
				if tooMany {
					continue
				}
				ops := j.ops
				if ops == nil {
					r := NewRng(c.Seed*1000003 + uint64(j.i)*7919 + 17)
					ops = s.Gen(r, j.i, c.Tier)
				}
				local.Cases++
				if len(local.Samples) < 1 && len(ops) > 3 {
					k := len(ops)
					if k > 6 {
						k = 6
					}
					local.Samples = append(local.Samples, s.Name+": "+strings.Join(opsLines(ops[:k]), " | "))
				}
				if dv := runCase(ex, d, ops, local, s.Canon, s.Classify); dv != nil {
					addFinding(ops, dv)
					// a diverged executor may hold state: start afresh
					ex.Cleanup()
					ex = s.MkExec()
				}
			}
			c.mu.Lock()
			mergeStats(c.Stats, local)
			c.mu.Unlock()
		}()
	}
	for i := 0; i < nCorpus; i++ {
		jobs <- job{i, cases[i]}
	}
	for i := 0; i < n; i++ {
		jobs <- job{i, nil}
	}
	close(jobs)
	wg.Wait()
	return findings
}

func main() {
	prop := flag.String("prop", "", "property id")
	tier := flag.String("tier", "quick", "quick|thorough")
	seed := flag.Uint64("seed", 1, "seed")
	drv := flag.String("drv", "", "path of the compiled Lean driver")
	verif := flag.String("verif", "/verif", "verif directory")
	out := flag.String("out", "", "result JSON path")
	replay := flag.String("replay", "", "replay file (json with ops)")
	child := flag.String("child", "", "internal: run a child role")
	flag.Parse()
	// the process's local time zone is an input like any other: nothing whispertool prints or
	// parses may depend on it, so the harness (and every child, the server included) runs in
	// a zone that is not UTC and not a whole number of hours
	time.Local = time.FixedZone("VRF", 9*3600+30*60)
	if *child != "" {
		runChild(*child, flag.Args())
		return
	}
	drvPath = *drv
	t0 := time.Now()
	c := &Ctx{Prop: *prop, Tier: *tier, Seed: *seed, VerifDir: *verif, Stats: NewStats(), Notes: map[string]string{}}

	if *replay != "" {
		os.Exit(runReplay(c, *replay))
	}

	suites := suitesFor(*prop)
	if len(suites) == 0 {
		fmt.Fprintf(os.Stderr, "no suites for %s\n", *prop)
		os.Exit(2)
	}
	res := Result{Property: *prop, Tier: *tier, Seed: *seed, Hist: map[string]int{}}
	for _, s := range suites {
		res.Suites = append(res.Suites, s.Name)
		fs := runSuite(c, s)
		for i := range fs {
			kind := "correspondence-broken"
			if fs[i].Stratum == "S" {
				kind = "property-violation"
			}
			fs[i].Replay = writeReplay(*verif, Replay{Property: *prop, Kind: kind, Stratum: fs[i].Stratum,
				Seed: *seed, Ops: fs[i].Ops, Impl: fs[i].Impl, Model: fs[i].Model, Suite: fs[i].Suite,
				Note: fs[i].Note, Signature: fs[i].Signature})
		}
		res.Findings = append(res.Findings, fs...)
	}
	res.Evaluations = c.Stats.Evaluations
	res.Cases = c.Stats.Cases
	res.Distinct = len(c.Stats.Classes)
	res.SOps = c.Stats.SOps
	res.MOps = c.Stats.MOps
	res.Hist = c.Stats.Hist
	res.Samples = c.Stats.Samples
	res.Notes = c.Notes
	res.WallS = time.Since(t0).Seconds()
	b, _ := json.MarshalIndent(res, "", " ")
	if *out != "" {
		ioutil.WriteFile(*out, b, 0644)
	} else {
		os.Stdout.Write(b)
	}
}

func runReplay(c *Ctx, path string) int {
	b, err := ioutil.ReadFile(path)
	if err != nil {
		fmt.Fprintln(os.Stderr, err)
		return 2
	}
	var r Replay
	if err := json.Unmarshal(b, &r); err != nil {
		fmt.Fprintln(os.Stderr, err)
		return 2
	}
	var suite *Suite
	for _, s := range suitesFor(r.Property) {
		if s.Name == r.Suite {
			s := s
			suite = &s
		}
	}
	if suite != nil && suite.Custom != nil {
		// a suite that runs itself (locks, races, large responses): run it again with the seed of
		// the file and say whether the same finding shows again
		c.Seed = r.Seed
		again := false
		for _, f := range suite.Custom(c) {
			if f.Signature == r.Signature {
				again = true
				fmt.Printf("replay: %s %s: %s\n", r.Property, f.Signature, f.Note)
			}
		}
		if again {
			fmt.Printf("VIOLATION property=%s replay=%s\n", r.Property, path)
			return 1
		}
		fmt.Printf("replay: suite %q of %s ran again with seed %d; the finding %q did not show\n", r.Suite, r.Property, r.Seed, r.Signature)
		return 0
	}
	if suite == nil || suite.MkExec == nil {
		fmt.Printf("replay: suite %q of %s is not line-replayable; see the note in the file\n", r.Suite, r.Property)
		return 2
	}
	var ops []Op
	for _, l := range r.Ops {
		s := false
		if j := strings.Index(l, "#"); j >= 0 {
			s = strings.Contains(l[j:], "S")
			l = strings.TrimSpace(l[:j])
		}
		ops = append(ops, Op{l, s})
	}
	ex := suite.MkExec()
	defer ex.Cleanup()
	d := mustDrv()
	defer d.Close()
	bad := 0
	for _, op := range ops {
		raw := ex.Exec(op.Line)
		mline := op.Line
		if j := strings.LastIndex(raw, " @now="); j >= 0 {
			mline += " now=" + raw[j+6:]
			raw = raw[:j]
		}
		if j := strings.LastIndex(raw, " @append="); j >= 0 {
			mline += " " + raw[j+9:]
			raw = raw[:j]
		}
		io := suite.Canon(raw)
		mo := suite.Canon(d.Ask(mline))
		mark := "  "
		if io != mo {
			mark = "!!"
			bad++
		}
		fmt.Printf("%s %s\n     impl : %s\n     model: %s\n", mark, clip(mline), clip(io), clip(mo))
	}
	if bad > 0 {
		return 1
	}
	return 0
}

func clip(s string) string {
	if len(s) > 400 {
		return s[:400] + "…"
	}
	return s
}
