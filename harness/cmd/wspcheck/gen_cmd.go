package main

import (
	"fmt"
	"math"
	"path/filepath"
	"regexp"
	"sort"
	"strings"
	"time"
)

func pathMatch(pat, name string) (bool, error) { return filepath.Match(pat, name) }

// sortByComponents orders relative paths the way filepath.Glob lists them: directory level
// by directory level, each level's names sorted as strings.
func sortByComponents(names []string) {
	sort.Slice(names, func(i, j int) bool {
		// ("~s~" stands for a space in the line protocol: order the real names)
		a, b := strings.Split(strings.ReplaceAll(names[i], "~s~", " "), "/"), strings.Split(strings.ReplaceAll(names[j], "~s~", " "), "/")
		for k := 0; k < len(a) && k < len(b); k++ {
			if a[k] != b[k] {
				return a[k] < b[k]
			}
		}
		return len(a) < len(b)
	})
}

var hex16re = regexp.MustCompile(`\b[0-9a-f]{16}\b`)

// canonCmd: error kinds collapse (not-exist kept), every NaN bit pattern prints as "nan".
func canonCmd(s string) string {
	if strings.HasPrefix(s, "err") {
		leak := ""
		if i := strings.Index(s, " !lockleak"); i >= 0 {
			leak = s[i:]
		}
		if strings.HasPrefix(s, "err notexist") {
			return "err notexist" + leak
		}
		return "err" + leak
	}
	return hex16re.ReplaceAllStringFunc(s, func(h string) string {
		if isNaNHex(h) {
			return "nan"
		}
		return h
	})
}

type CmdGen struct {
	r    *Rng
	now  int
	lay  Layout
	agg  int
	xff  uint32
	prop string
}

func newCmdGen(r *Rng, prop string) *CmdGen {
	g := &CmdGen{r: r, prop: prop}
	g.lay = genLayout(r, r.Chance(1, 8))
	g.now = int(time.Now().Unix())
	g.agg = 1 + r.Intn(6)
	g.xff = math.Float32bits(xffChoices[r.Intn(len(xffChoices))])
	return g
}

func (g *CmdGen) opts() string {
	return fmt.Sprintf("agg=%d xff=%d lay=%s", g.agg, g.xff, g.lay)
}

func (g *CmdGen) libGen() *LibGen {
	return &LibGen{r: g.r, lay: g.lay, now: g.now, agg: g.agg, xff: g.xff, exotic: g.r.Chance(1, 3), prop: g.prop}
}

// writeFile emits the ops that build one file: create, a few batches (to the best archive
// and to named archives, so that coarser archives need not be the aggregate of finer
// ones), sync, close.
func (g *CmdGen) writeFile(ops []Op, path string, lay Layout, density int) []Op {
	lg := g.libGen()
	lg.lay = lay
	ops = append(ops, Op{"use " + path, false}, Op{fmt.Sprintf("create %s %d %08x", lay, g.agg, g.xff), false})
	for b := 0; b < density; b++ {
		k := -1
		if g.r.Chance(1, 3) {
			k = g.r.Intn(lay.K())
		}
		ops = append(ops, Op{fmt.Sprintf("updmany %d %d %s", k, g.now, lg.genBatch()), false})
	}
	ops = append(ops, Op{"sync", false}, Op{"drop", false})
	return ops
}

// copyOf: dst is written with the same batches as src up to `keep` of them, then its own
func (g *CmdGen) window() (int, int) {
	switch g.r.Intn(6) {
	case 0, 1:
		return 0, 0 // defaults: from the epoch until now
	case 2:
		k := g.r.Intn(g.lay.K())
		a := g.r.Intn(g.lay.Ret(k) + 1)
		b := g.r.Intn(a + 1)
		return g.now - a, g.now - b
	case 3: // in the past, beyond the finest archive's retention
		a := g.lay.Ret(0) + g.r.Intn(g.lay.MaxRet()+1)
		return g.now - a - g.r.Intn(50), g.now - a
	case 4: // wholly before every retention
		return g.now - g.lay.MaxRet() - 100, g.now - g.lay.MaxRet() - 10
	default:
		lg := g.libGen()
		f, u := lg.window(g.r.Intn(g.lay.K()))
		if f < 0 {
			f = 0
		}
		if u < 1 {
			u = 1
		}
		if f > u {
			f, u = u, f
		}
		return f, u
	}
}

func (g *CmdGen) archiveSel() int {
	switch g.r.Intn(8) {
	case 0:
		return g.lay.K() // out of range
	case 1:
		return -2
	case 2, 3:
		return g.r.Intn(g.lay.K())
	default:
		return -1
	}
}

func (g *CmdGen) win() string {
	f, u := g.window()
	return fmt.Sprintf("archive=%d from=%d until=%d", g.archiveSel(), f, u)
}

// winValid: a selection that names an archive of g.lay, or all of them
func (g *CmdGen) winValid() string {
	f, u := g.window()
	id := -1
	if g.r.Chance(1, 2) {
		id = g.r.Intn(g.lay.K())
	}
	return fmt.Sprintf("archive=%d from=%d until=%d", id, f, u)
}

func (g *CmdGen) winAll() string {
	f, u := g.window()
	return fmt.Sprintf("archive=-1 from=%d until=%d", f, u)
}

func (g *CmdGen) fdisks(ops []Op, s bool, paths ...string) []Op {
	for _, p := range paths {
		ops = append(ops, Op{fmt.Sprintf("fdisk %s %d", p, g.lay.HdrSize()), s})
	}
	return ops
}

// genCopyCase (C08): source and destination contents of every kind, then copy, the
// destination's bytes, the source's bytes, diff over the same window, and the same copy again.
func genCopyCase(r *Rng) []Op {
	g := newCmdGen(r, "C08")
	ops := []Op{{"reset", false}}
	ops = g.writeFile(ops, "src/a.wsp", g.lay, 1+r.Intn(4))
	switch r.Intn(5) {
	case 0: // no destination
	case 1: // fresh, never written destination
		ops = g.writeFile(ops, "dst/a.wsp", g.lay, 0)
	case 2: // other layout (unrelated, or the same steps with a longer last archive)
		other := genLayout(r, false)
		if r.Bool() {
			other = nearLayout(r, g.lay)
		}
		ops = g.writeFile(ops, "dst/a.wsp", other, r.Intn(2))
	default:
		ops = g.writeFile(ops, "dst/a.wsp", g.lay, 1+r.Intn(3))
	}
	w := g.win()
	cn := r.Intn(2)
	if g.lay.K() >= 2 && r.Chance(1, 4) {
		// staged: one coarser archive first, then all of them over the same window
		f, u := g.window()
		w = fmt.Sprintf("archive=-1 from=%d until=%d", f, u)
		ops = append(ops, Op{fmt.Sprintf("cmd copy pairs=src/a.wsp>dst/a.wsp %s copynan=%d archive=%d from=%d until=%d", g.opts(), cn, 1+r.Intn(g.lay.K()-1), f, u), true})
	}
	line := fmt.Sprintf("cmd copy pairs=src/a.wsp>dst/a.wsp %s copynan=%d %s", g.opts(), cn, w)
	ops = append(ops, Op{line, true})
	ops = g.fdisks(ops, true, "dst/a.wsp", "src/a.wsp")
	ops = append(ops, Op{"cmd diff pairs=src/a.wsp>dst/a.wsp " + w, true})
	ops = append(ops, Op{line, true})
	ops = g.fdisks(ops, true, "dst/a.wsp")
	return ops
}

func genCopyGlobCase(r *Rng) []Op {
	g := newCmdGen(r, "C08")
	ops := []Op{{"reset", false}}
	names := []string{"a.wsp", "b.wsp", "sub/c.wsp", "sub/d.wsp", "x.dat"}
	var present []string
	for _, n := range names {
		if r.Chance(2, 3) {
			ops = g.writeFile(ops, "src/"+n, g.lay, 1+r.Intn(2))
			present = append(present, n)
		}
		if r.Chance(1, 3) {
			lay := g.lay
			if r.Chance(1, 5) {
				// one destination with another layout: a hard error for that file, whatever the
				// files before it in glob order showed
				lay = genLayout(r, false)
				if r.Bool() {
					lay = nearLayout(r, g.lay)
				}
			}
			ops = g.writeFile(ops, "dst/"+n, lay, r.Intn(2))
		}
	}
	pat := []string{"*.wsp", "sub/*.wsp", "*.*", "?.wsp", "*/*.wsp", "[ab].wsp", "nomatch*"}[r.Intn(7)]
	var pairs []string
	for _, n := range present {
		if ok, _ := pathMatch(pat, n); ok {
			pairs = append(pairs, fmt.Sprintf("src/%s>dst/%s", n, n))
		}
	}
	ps := "-"
	if len(pairs) > 0 {
		ps = strings.Join(pairs, ",")
	}
	w := g.winAll()
	bs := ""
	if r.Chance(1, 2) {
		bs = fmt.Sprintf(" base=%d", 1+r.Intn(3))
	}
	ops = append(ops, Op{fmt.Sprintf("cmd copy pairs=%s glob=%s %s copynan=%d %s%s", ps, pat, g.opts(), r.Intn(2), w, bs), true})
	for _, n := range present {
		ops = g.fdisks(ops, true, "dst/"+n)
	}
	ops = append(ops, Op{fmt.Sprintf("cmd diff pairs=%s glob=%s %s%s", ps, pat, w, bs), true})
	return ops
}

// genFullTextOutCase (C05, C16): the text-out accepts the open and fails every write; the
// report is far larger than its 4 KiB buffer, so printing fails before the command's final
// Sync: an error, and an existing destination keeps its bytes
func genFullTextOutCase(r *Rng, prop string) []Op {
	g := newCmdGen(r, prop)
	for g.lay.Ns[0] < 400 || g.lay.FileSize() > 200000 {
		g.lay = genLayout(r, true)
	}
	ops := []Op{{"reset", false}}
	// a dense finest archive: one point per slot
	st := g.lay.Steps[0]
	n := g.lay.Ns[0] - 5
	var pts []string
	base := g.now - g.now%st
	for i := 0; i < n; i++ {
		pts = append(pts, fmt.Sprintf("%d:%s", base-i*st, genVal(r, false)))
	}
	mk := func(path string) {
		ops = append(ops, Op{"use " + path, false}, Op{fmt.Sprintf("create %s %d %08x", g.lay, g.agg, g.xff), false})
		ops = append(ops, Op{fmt.Sprintf("updmany 0 %d %s", g.now, strings.Join(pts, ",")), false})
		ops = append(ops, Op{"sync", false}, Op{"drop", false})
	}
	if prop == "C11" {
		mk("src/i1/f0.wsp")
		mk("src/i1/f1.wsp")
		ops = g.writeFile(ops, "dst/i1/sum.wsp", g.lay, 0)
		ops = g.fdisks(ops, true, "dst/i1/sum.wsp")
		ops = append(ops, Op{fmt.Sprintf("cmd sumcopy items=src/i1/f0.wsp+src/i1/f1.wsp>dst/i1/sum.wsp itempat=i1 srcpat=*.wsp dest=sum.wsp %s archive=-1 from=0 until=0 textout=full", g.opts()), true})
		ops = g.fdisks(ops, true, "dst/i1/sum.wsp")
		return ops
	}
	mk("src/a.wsp")
	ops = g.writeFile(ops, "dst/a.wsp", g.lay, r.Intn(2))
	ops = g.fdisks(ops, true, "dst/a.wsp")
	ops = append(ops, Op{fmt.Sprintf("cmd copy pairs=src/a.wsp>dst/a.wsp %s copynan=%d archive=-1 from=0 until=0 textout=full", g.opts(), r.Intn(2)), true})
	ops = g.fdisks(ops, true, "dst/a.wsp")
	return ops
}

// genCliFailCase (C05): a CLI write that fails before its final Sync leaves an existing
// destination's bytes as they were — for each way such a write can fail
func genCliFailCase(r *Rng) []Op {
	switch r.Intn(6) {
	case 0, 1:
		return genFullTextOutCase(r, "C05")
	case 2:
		return genFullTextOutCase(r, "C11")
	}
	g := newCmdGen(r, "C05")
	ops := []Op{{"reset", false}}
	switch r.Intn(3) {
	case 0: // the source cannot be read
		ops = g.writeFile(ops, "src/a.wsp", g.lay, 1)
		ops = append(ops, Op{"use src/a.wsp", false}, Op{"setdisk " + randHex(r, 1+r.Intn(60)), false})
		ops = g.writeFile(ops, "dst/a.wsp", g.lay, 1+r.Intn(2))
	case 1: // layouts differ
		ops = g.writeFile(ops, "src/a.wsp", g.lay, 1+r.Intn(2))
		other := genLayout(r, false)
		if r.Bool() {
			other = nearLayout(r, g.lay)
		}
		ops = g.writeFile(ops, "dst/a.wsp", other, 1+r.Intn(2))
	default: // a selection that names no archive
		ops = g.writeFile(ops, "src/a.wsp", g.lay, 1+r.Intn(2))
		ops = g.writeFile(ops, "dst/a.wsp", g.lay, 1+r.Intn(2))
		ops = g.fdisks(ops, true, "dst/a.wsp")
		ops = append(ops, Op{fmt.Sprintf("cmd copy pairs=src/a.wsp>dst/a.wsp %s copynan=%d archive=%d from=0 until=0", g.opts(), r.Intn(2), g.lay.K()+r.Intn(2)), true})
		return g.fdisks(ops, true, "dst/a.wsp")
	}
	ops = g.fdisks(ops, true, "dst/a.wsp")
	ops = append(ops, Op{fmt.Sprintf("cmd copy pairs=src/a.wsp>dst/a.wsp %s copynan=%d %s", g.opts(), r.Intn(2), g.winAll()), true})
	return g.fdisks(ops, true, "dst/a.wsp")
}

// genDiffGlobOrderCase (C09): with a glob every matched file is compared in glob order; a
// difference (or a missing destination) in an earlier file must not mask a hard error in a
// later one, nor the reverse
func genDiffGlobOrderCase(r *Rng) []Op {
	g := newCmdGen(r, "C09")
	ops := []Op{{"reset", false}}
	names := []string{"a.wsp", "b.wsp", "c.wsp"}
	kinds := []int{r.Intn(4), r.Intn(4), r.Intn(4)} // 0 equal-ish, 1 differs, 2 dest missing, 3 other layout
	kinds[r.Intn(3)] = 3
	for i, n := range names {
		ops = g.writeFile(ops, "src/"+n, g.lay, 1+r.Intn(2))
		switch kinds[i] {
		case 2:
		case 3:
			lay := genLayout(r, false)
			if r.Bool() {
				lay = nearLayout(r, g.lay)
			}
			ops = g.writeFile(ops, "dst/"+n, lay, r.Intn(2))
		default:
			ops = g.writeFile(ops, "dst/"+n, g.lay, 1+r.Intn(2))
		}
	}
	pat := []string{"*.wsp", "[abc].wsp", "?.wsp"}[r.Intn(3)]
	bs := ""
	if r.Chance(1, 2) {
		bs = fmt.Sprintf(" base=%d", 1+r.Intn(3))
	}
	ops = append(ops, Op{fmt.Sprintf("cmd diff pairs=src/a.wsp>dst/a.wsp,src/b.wsp>dst/b.wsp,src/c.wsp>dst/c.wsp glob=%s %s%s", pat, g.winAll(), bs), true})
	return ops
}

// genDiffCase (C09)
func genDiffCase(r *Rng) []Op {
	g := newCmdGen(r, "C09")
	ops := []Op{{"reset", false}}
	srcThere, dstThere := r.Chance(7, 8), r.Chance(7, 8)
	// the pair's name: now and then one that needs escaping on its way to the server
	name := "a.wsp"
	if r.Chance(1, 4) {
		name = []string{"x+y.wsp", "p&q=r.wsp", "50%.wsp", "a#b.wsp", "semi;colon.wsp", "two~s~words.wsp"}[r.Intn(6)]
	}
	if srcThere {
		ops = g.writeFile(ops, "src/"+name, g.lay, 1+r.Intn(3))
	}
	if dstThere {
		lay := g.lay
		if r.Chance(1, 6) {
			lay = genLayout(r, false)
			if r.Bool() {
				lay = nearLayout(r, g.lay)
			}
		}
		ops = g.writeFile(ops, "dst/"+name, lay, 1+r.Intn(3))
	}
	w := g.win()
	if !srcThere || !dstThere {
		// one failure at a time: the two sides are read concurrently and the first error wins
		w = g.winAll()
	}
	ops = append(ops, Op{"cmd diff pairs=src/" + name + ">dst/" + name + " " + w, true})
	// the verdict is symmetric
	ops = append(ops, Op{"cmd diff pairs=dst/" + name + ">src/" + name + " swap=1 " + w, true})
	if r.Chance(1, 3) {
		// the same comparison with the source behind `whispertool server`: a file missing
		// there is a reported difference too, not another kind of error
		ops = append(ops, Op{"cmd diff pairs=src/" + name + ">dst/" + name + " " + w + " remote=1", true})
	}
	if srcThere && dstThere && r.Bool() {
		// make the destination equal to the source, then diff is clean
		ops = append(ops, Op{fmt.Sprintf("cmd copy pairs=src/%s>dst/%s %s copynan=1 archive=-1 from=0 until=0", name, name, g.opts()), false})
		ops = append(ops, Op{"cmd diff pairs=src/" + name + ">dst/" + name + " archive=-1 from=0 until=0", true})
	}
	return ops
}

// genSumCase (C10, C11)
func genSumCase(r *Rng, prop string) []Op {
	g := newCmdGen(r, prop)
	ops := []Op{{"reset", false}}
	items := []string{"i1", "i2", "n.a"}
	var itemSpecs []string
	pat := []string{"*.wsp", "*.wsp", "f?.wsp", "none*.wsp"}[r.Intn(4)]
	itemPat := []string{"i*", "i1", "n/*", "zz*", "*"}[r.Intn(5)]
	// C10 is about the sum that succeeds: half of its cases have nothing that makes it fail
	// (patterns that match, equal layouts, a selection the layout has)
	clean := prop == "C10" && r.Bool()
	if !clean && prop == "C10" && r.Chance(1, 8) {
		// matches something, but only the plain files inside an item directory: each is taken
		// as an item and holds no file to sum
		itemPat = "i1/*"
	}
	if clean {
		pat = []string{"*.wsp", "f?.wsp", "f[0-2].wsp"}[r.Intn(3)]
		itemPat = []string{"i*", "i1", "n/*", "i[12]"}[r.Intn(4)]
	}
	if itemPat == "*" {
		// "n" matches too and holds no whisper file of its own
		defer func() {}()
	}
	// the sum of the sources and the destination are read concurrently and the first error
	// wins: a case has one cause of failure (mismatched sources, a missing destination or a
	// bad archive id), never two that race
	oneFailure := false
	for _, it := range items {
		dir := strings.ReplaceAll(it, ".", "/")
		n := 1 + r.Intn(4)
		var files []string
		mismatch := false
		for f := 0; f < n; f++ {
			name := fmt.Sprintf("f%d.wsp", f)
			lay := g.lay
			if clean {
				// equal layouts throughout
			} else if r.Chance(1, 15) {
				lay = genLayout(r, false)
				mismatch = true
			} else if f > 0 && r.Chance(1, 8) {
				// a near miss: same steps, a longer last archive (equal windows for recent ranges)
				lay = nearLayout(r, g.lay)
				mismatch = true
			}
			if f > 0 && r.Chance(1, 5) {
				// same layout, another aggregation method and xFilesFactor: the sum reports the
				// first file's header
				sa, sx := g.agg, g.xff
				g.agg, g.xff = 1+r.Intn(6), math.Float32bits(xffChoices[r.Intn(len(xffChoices))])
				ops = g.writeFile(ops, "src/"+dir+"/"+name, lay, 1+r.Intn(3))
				g.agg, g.xff = sa, sx
			} else {
				ops = g.writeFile(ops, "src/"+dir+"/"+name, lay, 1+r.Intn(3))
			}
			if ok, _ := pathMatch(pat, name); ok {
				files = append(files, "src/"+dir+"/"+name)
			}
		}
		if ok, _ := pathMatch(itemPat, dir); ok {
			// items are matched on their directory form relative to the base
			itemSpecs = append(itemSpecs, strings.Join(files, "+")+">dst/"+dir+"/sum.wsp")
		}
		if itemPat == "i1/*" && dir == "i1" {
			for f := 0; f < n; f++ {
				itemSpecs = append(itemSpecs, fmt.Sprintf(">dst/i1/f%d.wsp/sum.wsp", f))
			}
		}
		if mismatch {
			oneFailure = true
		}
		if prop == "C11" {
			if mismatch || r.Chance(1, 2) {
				ops = g.writeFile(ops, "dst/"+dir+"/sum.wsp", g.lay, r.Intn(3))
			} else {
				oneFailure = true
			}
		}
	}
	if itemPat == "*" {
		// the directory "n" matches as an item of its own and has no file to sum
		itemSpecs = append(itemSpecs, ">dst/n/sum.wsp")
	}
	is := "-"
	if len(itemSpecs) > 0 {
		is = strings.Join(itemSpecs, ";")
	}
	w := g.win()
	if pat == "none*.wsp" || itemPat == "*" || itemPat == "zz*" || itemPat == "i1/*" {
		// one failure at a time (source and destination are read concurrently)
		w = g.winAll()
	} else if oneFailure || clean {
		w = g.winValid()
	}
	common := fmt.Sprintf("items=%s itempat=%s srcpat=%s", is, itemPat, pat)
	if prop == "C10" {
		hd := r.Intn(2)
		ops = append(ops, Op{fmt.Sprintf("cmd sum %s header=%d %s", common, hd, w), true})
		if r.Chance(1, 3) {
			// the same sum served by `whispertool server`
			ops = append(ops, Op{fmt.Sprintf("cmd sum %s header=%d %s remote=1", common, hd, w), true})
		}
		return ops
	}
	ops = append(ops, Op{fmt.Sprintf("cmd sumdiff %s dest=sum.wsp %s", common, w), true})
	if g.lay.K() >= 2 && r.Chance(1, 2) {
		// staged: first one coarser archive alone (its slots then equal the sum while the finer
		// archives do not), then everything — the finer writes propagate into slots that
		// already matched
		f, u := g.window()
		if r.Bool() {
			f, u = 0, 0
		}
		st := g.lay.K() - 1
		if r.Chance(1, 3) {
			st = 1 + r.Intn(g.lay.K()-1)
		}
		w = fmt.Sprintf("archive=-1 from=%d until=%d", f, u)
		ops = append(ops, Op{fmt.Sprintf("cmd sumcopy %s dest=sum.wsp %s archive=%d from=%d until=%d", common, g.opts(), st, f, u), true})
	}
	ops = append(ops, Op{fmt.Sprintf("cmd sumcopy %s dest=sum.wsp %s %s", common, g.opts(), w), true})
	for _, it := range items {
		ops = g.fdisks(ops, true, "dst/"+strings.ReplaceAll(it, ".", "/")+"/sum.wsp")
	}
	ops = append(ops, Op{fmt.Sprintf("cmd sumdiff %s dest=sum.wsp %s", common, w), true})
	if len(itemSpecs) >= 2 && r.Bool() {
		// one item disturbed after the copy, the others still clean: the run reports the difference
		first := itemSpecs[0][strings.IndexByte(itemSpecs[0], '>')+1:]
		ops = append(ops, Op{"use " + first, false}, Op{"open", false},
			Op{fmt.Sprintf("upd 0 %d %s %d", g.now-r.Intn(g.lay.Steps[0]*2+1), genVal(r, false), g.now), false},
			Op{"sync", false}, Op{"drop", false})
		ops = append(ops, Op{fmt.Sprintf("cmd sumdiff %s dest=sum.wsp %s", common, w), true})
	}
	return ops
}

// writeConsistent: a file written through the best-archive path only, so that every coarser
// archive is the aggregate of the finer one
func (g *CmdGen) writeConsistent(ops []Op, path string, batches int) []Op {
	lg := g.libGen()
	ops = append(ops, Op{"use " + path, false}, Op{fmt.Sprintf("create %s %d %08x", g.lay, g.agg, g.xff), false})
	for b := 0; b < batches; b++ {
		ops = append(ops, Op{fmt.Sprintf("updmany -1 %d %s", g.now, lg.genBatch()), false})
	}
	return append(ops, Op{"sync", false}, Op{"drop", false})
}

// genStagedCase (C08, C11): a layout of three or more archives and self-consistent sources;
// the coarsest archives are brought over first, then everything.  The finer writes of the
// second run propagate down the whole chain into slots that already held the right value,
// and a destination equal to the source (or the sum) afterwards needs them re-examined.
func genStagedCase(r *Rng, prop string) []Op {
	g := newCmdGen(r, prop)
	for g.lay.K() < 3 || g.lay.FileSize() > 60000 {
		g.lay = genLayout(r, false)
	}
	g.xff = math.Float32bits([]float32{0, 0, 0.1, 0.5}[r.Intn(4)])
	ops := []Op{{"reset", false}}
	st := g.lay.K() - 1
	if r.Chance(1, 3) {
		st = 1 + r.Intn(g.lay.K()-1)
	}
	f, u := 0, 0
	if r.Chance(1, 3) {
		f, u = g.window()
	}
	if prop == "C08" {
		ops = g.writeConsistent(ops, "src/a.wsp", 1+r.Intn(3))
		if r.Bool() {
			ops = g.writeConsistent(ops, "dst/a.wsp", r.Intn(2))
		}
		cn := r.Intn(2)
		ops = append(ops, Op{fmt.Sprintf("cmd copy pairs=src/a.wsp>dst/a.wsp %s copynan=%d archive=%d from=%d until=%d", g.opts(), cn, st, f, u), true})
		line := fmt.Sprintf("cmd copy pairs=src/a.wsp>dst/a.wsp %s copynan=%d archive=-1 from=%d until=%d", g.opts(), cn, f, u)
		ops = append(ops, Op{line, true})
		ops = g.fdisks(ops, true, "dst/a.wsp")
		ops = append(ops, Op{fmt.Sprintf("cmd diff pairs=src/a.wsp>dst/a.wsp archive=-1 from=%d until=%d", f, u), true})
		return ops
	}
	n := 2 + r.Intn(2)
	var files []string
	for i := 0; i < n; i++ {
		p := fmt.Sprintf("src/i1/f%d.wsp", i)
		ops = g.writeConsistent(ops, p, 1+r.Intn(2))
		files = append(files, p)
	}
	common := fmt.Sprintf("items=%s>dst/i1/sum.wsp itempat=i1 srcpat=*.wsp", strings.Join(files, "+"))
	ops = append(ops, Op{fmt.Sprintf("cmd sumcopy %s dest=sum.wsp %s archive=%d from=%d until=%d", common, g.opts(), st, f, u), true})
	ops = append(ops, Op{fmt.Sprintf("cmd sumcopy %s dest=sum.wsp %s archive=-1 from=%d until=%d", common, g.opts(), f, u), true})
	ops = g.fdisks(ops, true, "dst/i1/sum.wsp")
	ops = append(ops, Op{fmt.Sprintf("cmd sumdiff %s dest=sum.wsp archive=-1 from=%d until=%d", common, f, u), true})
	return ops
}

// genViewCase (C18)
func genViewCase(r *Rng) []Op {
	g := newCmdGen(r, "C18")
	ops := []Op{{"reset", false}}
	ops = g.writeFile(ops, "src/a.wsp", g.lay, 1+r.Intn(4))
	if r.Chance(1, 4) {
		// a file stamped after 2038 (timestamps with the top bit set) next to never-written
		// slots: the raw dump, in slot order and sorted, over the whole timestamp range
		save := g.now
		g.now = 2147483648 + 1000 + r.Intn(2000000000)
		ops = g.writeFile(ops, "src/late.wsp", g.lay, 1+r.Intn(3))
		g.now = save
		for _, srt := range []int{0, 1} {
			ops = append(ops, Op{fmt.Sprintf("cmd viewraw src=src/late.wsp header=1 sort=%d archive=%d from=0 until=4294967295", srt, []int{-1, r.Intn(g.lay.K())}[r.Intn(2)]), true})
		}
	}
	for i := 0; i < 3; i++ {
		w := g.win()
		ops = append(ops, Op{fmt.Sprintf("cmd view src=src/a.wsp header=%d %s", r.Intn(2), w), true})
		ops = append(ops, Op{fmt.Sprintf("cmd viewraw src=src/a.wsp header=%d sort=%d %s", r.Intn(2), r.Intn(2), w), true})
	}
	return ops
}

// genRemoteCase (C12): every read through the server and locally
func genRemoteCase(r *Rng) []Op {
	g := newCmdGen(r, "C12")
	ops := []Op{{"reset", false}}
	ops = g.writeFile(ops, "src/a.wsp", g.lay, 1+r.Intn(3))
	// a name that needs query escaping
	odd := "src/" + []string{"x+y.wsp", "p&q=r.wsp", "50%.wsp", "a#b.wsp", "semi;colon.wsp", "sp@ce~.wsp",
		"two~s~words.wsp", "a~s~~s~b.wsp"}[r.Intn(8)] // (~s~ is a space: see ImplCmd.Exec)
	ops = g.writeFile(ops, odd, g.lay, 1)
	ops = g.writeFile(ops, "src/it/f0.wsp", g.lay, 1+r.Intn(2))
	ops = g.writeFile(ops, "src/it/f1.wsp", g.lay, 1+r.Intn(2))
	ops = g.writeFile(ops, "dst/a.wsp", g.lay, 1+r.Intn(2))
	dangling := r.Chance(1, 4)
	if dangling {
		// a name the pattern matches and that cannot be opened: not-exist, locally and remotely
		ops = append(ops, Op{"dangle src/it/f9.wsp", false})
	}
	for i := 0; i < 2; i++ {
		w := g.win()
		if dangling {
			w = g.winAll()
		}
		file := "src/a.wsp"
		if r.Chance(1, 4) {
			file = "src/missing.wsp"
			w = g.winAll()
		} else if r.Chance(1, 3) {
			file = odd
		}
		for _, rm := range []string{"", " remote=1"} {
			ops = append(ops, Op{fmt.Sprintf("cmd view src=%s header=1 %s%s", file, w, rm), true})
			ops = append(ops, Op{fmt.Sprintf("cmd viewraw src=%s header=1 sort=%d %s%s", file, i%2, w, rm), true})
			ops = append(ops, Op{fmt.Sprintf("cmd diff pairs=%s>dst/a.wsp %s%s", file, w, rm), true})
		}
		ip, sp, items := "it", "*.wsp", "src/it/f0.wsp+src/it/f1.wsp>"
		if dangling {
			items = "src/it/f0.wsp+src/it/f1.wsp+src/it/f9.wsp>"
		}
		switch r.Intn(4) {
		case 0:
			sp, items = "zz*", ">"
		case 1:
			ip, items = "nope", "-"
		}
		for _, rm := range []string{"", " remote=1"} {
			ops = append(ops, Op{fmt.Sprintf("cmd sum items=%s itempat=%s srcpat=%s header=1 %s%s", items, ip, sp, w, rm), true})
		}
	}
	// copy from a remote source: the destination ends up as with a local source
	w := g.winAll()
	line := fmt.Sprintf("cmd copy pairs=src/a.wsp>dst/a.wsp %s copynan=0 %s remote=1", g.opts(), w)
	ops = append(ops, Op{line, true})
	ops = g.fdisks(ops, true, "dst/a.wsp")
	// globbing through the server
	pat := []string{"*.wsp", "it/*.wsp", "nomatch*"}[r.Intn(3)]
	if r.Chance(1, 3) {
		// a pattern whose literal part needs query escaping
		pat = strings.TrimSuffix(strings.TrimPrefix(odd, "src/"), ".wsp") + "*"
	}
	var pairs []string
	all := []string{"a.wsp", strings.TrimPrefix(odd, "src/"), "it/f0.wsp", "it/f1.wsp"}
	if dangling {
		all = append(all, "it/f9.wsp") // globbing lists the name; reading it reports not-exist
	}
	if r.Chance(1, 3) {
		// a wildcard above the last component, over sibling directories one of whose names
		// extends the other's by a character that sorts below the separator: the listing is
		// ordered directory level by directory level, not as whole strings
		d1 := []string{"web", "n", "a.b"}[r.Intn(3)]
		d2 := d1 + []string{"-1", ".x", "!z", "-"}[r.Intn(4)]
		nested := []string{d1 + "/c/f0.wsp", d2 + "/c/f0.wsp"}
		if r.Bool() {
			nested = append(nested, d1+"/c/f1.wsp")
		}
		for _, n := range nested {
			ops = g.writeFile(ops, "src/"+n, g.lay, 1)
			if r.Chance(3, 4) {
				ops = g.writeFile(ops, "dst/"+n, g.lay, r.Intn(2))
			}
		}
		all = append(all, nested...)
		pat = []string{"*/c/*.wsp", d1 + "*/c/f0.wsp", "*/*/f?.wsp"}[r.Intn(3)]
		// the same two directories as items of a sum: their order is the order of the listing
		it1 := "src/" + d1 + "/c/f0.wsp"
		if len(nested) == 3 {
			it1 += "+src/" + d1 + "/c/f1.wsp"
		}
		itemsNested := it1 + ">;src/" + d2 + "/c/f0.wsp>"
		// (an item is a dotted name standing for a directory path: a directory with a dot in its
		// own name cannot be an item)
		if !strings.Contains(d1+d2, ".") {
			for _, rm := range []string{"", " remote=1"} {
				ops = append(ops, Op{fmt.Sprintf("cmd sum items=%s itempat=*/c srcpat=*.wsp header=0 archive=-1 from=0 until=0%s", itemsNested, rm), true})
			}
		}
	}
	sortByComponents(all)
	for _, n := range all {
		if ok, _ := pathMatch(pat, n); ok {
			pairs = append(pairs, fmt.Sprintf("src/%s>dst/%s", n, n))
		}
	}
	ps := "-"
	if len(pairs) > 0 {
		ps = strings.Join(pairs, ",")
	}
	for _, rm := range []string{"", " remote=1"} {
		ops = append(ops, Op{fmt.Sprintf("cmd diff pairs=%s glob=%s %s%s", ps, pat, w, rm), true})
	}
	return ops
}

// genLoudCase (C16): every command x selection x window x environment fault
func genLoudCase(r *Rng) []Op {
	g := newCmdGen(r, "C16")
	ops := []Op{{"reset", false}}
	srcBad := false
	if r.Chance(5, 6) {
		ops = g.writeFile(ops, "src/a.wsp", g.lay, 1+r.Intn(3))
	} else {
		srcBad = true
	}
	ops = g.writeFile(ops, "src/it/f0.wsp", g.lay, 1)
	damagedWin := ""
	if r.Chance(1, 6) {
		// corrupt source
		if r.Bool() {
			ops = append(ops, Op{"use src/a.wsp", false}, Op{"setdisk " + randHex(r, 1+r.Intn(60)), false})
		} else {
			// a header that validates and an archive whose first slot — the base interval — holds a
			// time that is not on the archive's grid, read with degenerate windows around it
			var as []rawArch
			for i := range g.lay.Steps {
				as = append(as, rawArch{int64(g.lay.Steps[i]), int64(g.lay.Ns[i])})
			}
			hb := headerBytesFor(as, uint32(g.agg), g.xff, uint32(len(as)), false)
			file := append(append([]byte{}, hb...), make([]byte, g.lay.FileSize()-len(hb))...)
			k := r.Intn(g.lay.K())
			off := len(hb)
			for i := 0; i < k; i++ {
				off += 12 * g.lay.Ns[i]
			}
			st := g.lay.Steps[k]
			base := g.now - r.Intn(st*g.lay.Ns[k]+1)
			if st > 1 && base%st == 0 {
				base++
			}
			copy(file[off:], be32b(uint32(base)))
			copy(file[off+4:], []byte{0x40, 0x08, 0, 0, 0, 0, 0, 0})
			ops = append(ops, Op{"use src/a.wsp", false}, Op{"setdisk " + hx(file), false})
			t := base - base%st + []int{-st, 0, st}[r.Intn(3)] + r.Intn(st)
			damagedWin = fmt.Sprintf("archive=%d from=%d until=%d", []int{-1, k}[r.Intn(2)], t, t)
		}
		srcBad = true
	}
	dstThere := false
	if r.Chance(1, 2) {
		lay := g.lay
		if r.Chance(1, 4) {
			if r.Bool() {
				lay = genLayout(r, false)
			} else {
				// a near miss: the same steps, one archive longer — under a single-archive selection
				// or a recent window every series asked for has the same shape in both files
				lay = nearLayout(r, g.lay)
			}
		}
		ops = g.writeFile(ops, "dst/a.wsp", lay, r.Intn(3))
		dstThere = true
	}
	// the two sides of diff, copy and sum-diff are read concurrently and whichever error
	// comes first is reported: one cause of failure per case, so a selection that may name
	// no archive goes only with files that are all there
	wAny, wAll := g.win(), g.winAll()
	pick := func(allThere bool) string {
		if damagedWin != "" && r.Bool() {
			return damagedWin
		}
		if allThere {
			return wAny
		}
		return wAll
	}
	to := ""
	switch r.Intn(6) {
	case 0:
		to = " textout=bad"
	case 1:
		to = " textout=none"
	case 2:
		// a text-out that opens and then refuses what is flushed to it when the command
		// finishes: a report of any size, even none, must not be lost silently
		to = " textout=full"
	}
	c := r.Intn(9)
	if to == " textout=full" && c != 0 && c != 1 && c != 4 {
		// with the commands that write, or report a difference, where the failure surfaces
		// depends on the size of the report: kept to the reading commands here
		c = []int{0, 1, 4}[r.Intn(3)]
	}
	switch c {
	case 0:
		ops = append(ops, Op{fmt.Sprintf("cmd view src=src/a.wsp header=1 %s%s", pick(!srcBad), to), true})
	case 1:
		ops = append(ops, Op{fmt.Sprintf("cmd viewraw src=src/a.wsp header=1 sort=1 %s%s", pick(!srcBad), to), true})
	case 2:
		if srcBad && !dstThere {
			// a bad source and a missing destination would be two causes racing
			ops = g.writeFile(ops, "dst/a.wsp", g.lay, 1)
			dstThere = true
		}
		ops = append(ops, Op{fmt.Sprintf("cmd diff pairs=src/a.wsp>dst/a.wsp %s%s", pick(!srcBad && dstThere), to), true})
	case 3:
		ops = append(ops, Op{fmt.Sprintf("cmd copy pairs=src/a.wsp>dst/a.wsp %s copynan=%d %s%s", g.opts(), r.Intn(2), pick(!srcBad), to), true})
		ops = g.fdisks(ops, true, "dst/a.wsp")
	case 4:
		ops = append(ops, Op{fmt.Sprintf("cmd sum items=src/it/f0.wsp> itempat=it srcpat=*.wsp header=1 %s%s", wAny, to), true})
	case 5:
		ops = append(ops, Op{fmt.Sprintf("cmd sumcopy items=src/it/f0.wsp>dst/it/sum.wsp itempat=it srcpat=*.wsp dest=sum.wsp %s %s%s", g.opts(), wAny, to), true})
		ops = g.fdisks(ops, true, "dst/it/sum.wsp")
	case 8:
		// an item of several files one of which — the last as often as not — has the same steps and
		// a longer last archive: a layout mismatch is an error whatever archive is selected and
		// however recent the window, also where every series asked for would have the same shape
		nf := 2 + r.Intn(3)
		odd := nf - 1
		if r.Bool() {
			odd = r.Intn(nf)
		}
		if r.Chance(1, 5) {
			odd = -1 // all alike: the sum succeeds
		}
		var fs []string
		for f := 0; f < nf; f++ {
			lay := g.lay
			if f == odd {
				lay = nearLayout(r, g.lay)
			}
			ops = g.writeFile(ops, fmt.Sprintf("src/im/f%d.wsp", f), lay, 1+r.Intn(2))
			fs = append(fs, fmt.Sprintf("src/im/f%d.wsp", f))
		}
		wv := g.winValid()
		if r.Bool() {
			// recent: inside the finest archive
			a := r.Intn(g.lay.Ret(0))
			wv = fmt.Sprintf("archive=%d from=%d until=%d", []int{-1, r.Intn(g.lay.K())}[r.Intn(2)], g.now-a, g.now-r.Intn(a+1))
		}
		switch r.Intn(4) {
		case 3:
			// copy into a destination that is a near miss of the source (the options name the
			// source's layout): refused without writing, whatever is selected
			ops = g.writeFile(ops, "src/nm.wsp", g.lay, 1+r.Intn(2))
			ops = g.writeFile(ops, "dst/nm.wsp", nearLayout(r, g.lay), r.Intn(2))
			ops = append(ops, Op{fmt.Sprintf("cmd copy pairs=src/nm.wsp>dst/nm.wsp %s copynan=%d %s%s", g.opts(), r.Intn(2), wv, to), true})
			ops = g.fdisks(ops, true, "dst/nm.wsp")
		case 0:
			ops = append(ops, Op{fmt.Sprintf("cmd sum items=%s> itempat=im srcpat=*.wsp header=1 %s%s", strings.Join(fs, "+"), wv, to), true})
		case 1:
			ops = g.writeFile(ops, "dst/im/sum.wsp", g.lay, r.Intn(2))
			ops = append(ops, Op{fmt.Sprintf("cmd sumcopy items=%s>dst/im/sum.wsp itempat=im srcpat=*.wsp dest=sum.wsp %s %s%s", strings.Join(fs, "+"), g.opts(), wv, to), true})
			ops = g.fdisks(ops, true, "dst/im/sum.wsp")
		default:
			ops = g.writeFile(ops, "dst/im/sum.wsp", g.lay, r.Intn(2))
			ops = append(ops, Op{fmt.Sprintf("cmd sumdiff items=%s>dst/im/sum.wsp itempat=im srcpat=*.wsp dest=sum.wsp %s%s", strings.Join(fs, "+"), wv, to), true})
		}
	case 7:
		// several items in one run: an earlier item reports a difference (its destination is
		// missing), a later one compares clean — the run as a whole still reports the difference
		ops = g.writeFile(ops, "src/iu/f0.wsp", g.lay, 1+r.Intn(2))
		ops = append(ops, Op{fmt.Sprintf("cmd sumcopy items=src/iu/f0.wsp>dst/iu/sum.wsp itempat=iu srcpat=*.wsp dest=sum.wsp %s %s", g.opts(), wAll), true})
		ops = append(ops, Op{fmt.Sprintf("cmd sumdiff items=src/it/f0.wsp>dst/it/sum.wsp;src/iu/f0.wsp>dst/iu/sum.wsp itempat=i? srcpat=*.wsp dest=sum.wsp %s%s", wAll, to), true})
		ops = append(ops, Op{fmt.Sprintf("cmd sumdiff items=src/iu/f0.wsp>dst/iu/sum.wsp itempat=iu srcpat=*.wsp dest=sum.wsp %s%s", wAll, to), true})
	default:
		// the destination of the sum is never there in this stream
		ops = append(ops, Op{fmt.Sprintf("cmd sumdiff items=src/it/f0.wsp>dst/it/sum.wsp itempat=it srcpat=*.wsp dest=sum.wsp %s%s", wAll, to), true})
	}
	return ops
}

// genGenerateCase (C20)
func genGenerateCase(r *Rng) []Op {
	g := newCmdGen(r, "C20")
	// small layouts: generate fills every slot of every archive
	for g.lay.FileSize() > 20000 {
		g.lay = genLayout(r, false)
	}
	max := []int{0, 1, 5, 100, 1000}[r.Intn(5)]
	fill := r.Intn(4) != 0
	f := 0
	if fill {
		f = 1
	}
	line := fmt.Sprintf("cmd generate dest=gen/g.wsp %s max=%d fill=%d", g.opts(), max, f)
	ops := []Op{{"reset", false}, {line, true}}
	ops = append(ops, Op{fmt.Sprintf("genspec dest=gen/g.wsp lay=%s max=%d fill=%d", g.lay, max, f), true})
	ops = append(ops, Op{"snapshot gen/g.wsp", false})
	ops = append(ops, Op{"use gen/g.wsp", false}, Op{"open", true}, Op{"header", true}, Op{"drop", false})
	// a second generate must refuse to overwrite
	ops = append(ops, Op{line, true}, Op{fmt.Sprintf("fdisk gen/g.wsp %d", g.lay.HdrSize()), true})
	return ops
}

// nearLayout: the same steps, one archive with more points (still a valid layout): files
// whose fetched windows coincide for recent ranges although their layouts differ
func nearLayout(r *Rng, l Layout) Layout {
	n := Layout{append([]int{}, l.Steps...), append([]int{}, l.Ns...)}
	k := l.K() - 1
	n.Ns[k] = l.Ns[k] + 1 + r.Intn(l.Ns[k]+1)
	return n
}
