package main

import (
	"bufio"
	"fmt"
	"io"
	"os"
	"os/exec"
	"runtime"
	"strings"
	"syscall"
	"time"
)

// ChildExec runs an executor in a child process (the harness re-executing itself), so
// that a crash, a runaway allocation or a hang of the real code is an observation
// ("crash", "alloc!", "timeout") instead of the end of the run.
type ChildExec struct {
	role string
	cmd  *exec.Cmd
	in   io.WriteCloser
	out  *bufio.Reader
	// replayed after a restart so that stateful executors come back to a known state
	lastReset string
}

func NewChildExec(role string) *ChildExec {
	c := &ChildExec{role: role}
	c.start()
	return c
}

func (c *ChildExec) start() {
	self, _ := os.Executable()
	c.cmd = exec.Command(self, "-child", c.role)
	c.cmd.Env = append(os.Environ(), "GOMEMLIMIT=2GiB")
	c.in, _ = c.cmd.StdinPipe()
	out, _ := c.cmd.StdoutPipe()
	c.cmd.Stderr = nil
	c.out = bufio.NewReaderSize(out, 1<<20)
	if err := c.cmd.Start(); err != nil {
		panic(err)
	}
}

func (c *ChildExec) kill() {
	if c.cmd != nil && c.cmd.Process != nil {
		c.cmd.Process.Kill()
		c.cmd.Wait()
	}
}

func (c *ChildExec) Exec(line string) string {
	type res struct {
		s   string
		err error
	}
	ch := make(chan res, 1)
	go func() {
		if _, err := io.WriteString(c.in, line+"\n"); err != nil {
			ch <- res{"", err}
			return
		}
		s, err := c.out.ReadString('\n')
		ch <- res{strings.TrimRight(s, "\n"), err}
	}()
	select {
	case r := <-ch:
		if r.err != nil {
			c.kill()
			c.start()
			return "crash"
		}
		return r.s
	case <-time.After(60 * time.Second):
		c.kill()
		c.start()
		return "timeout"
	}
}

func (c *ChildExec) Cleanup() {
	if c.in != nil {
		c.in.Close()
	}
	done := make(chan struct{})
	go func() { c.cmd.Wait(); close(done) }()
	select {
	case <-done:
	case <-time.After(3 * time.Second):
		c.kill()
	}
}

// runChild is the child side: a line interpreter around an executor, with an address
// space limit and a per-operation allocation measurement.
func runChild(role string, args []string) {
	// a child never outlives the process that started it (a killed or crashed harness must not
	// leave servers or executors behind)
	parent := os.Getppid()
	go func() {
		for {
			time.Sleep(500 * time.Millisecond)
			if os.Getppid() != parent {
				os.Exit(3)
			}
		}
	}()
	// 6 GiB of address space: a decoder that tries to allocate from a hostile count dies here
	if role == "codec" || role == "lib" {
		lim := syscall.Rlimit{Cur: 6 << 30, Max: 6 << 30}
		syscall.Setrlimit(syscall.RLIMIT_AS, &lim)
	}
	var ex Executor
	switch role {
	case "codec":
		ex = ImplCodec{}
	case "lib":
		ex = NewImplLib()
	case "cmd":
		ex = NewImplCmd()
	default:
		if !runChildOther(role, args) {
			fmt.Fprintln(os.Stderr, "unknown child role", role)
			os.Exit(2)
		}
		return
	}
	defer ex.Cleanup()
	in := bufio.NewReaderSize(os.Stdin, 1<<20)
	out := bufio.NewWriter(os.Stdout)
	var ms runtime.MemStats
	for {
		line, err := in.ReadString('\n')
		if line == "" && err != nil {
			return
		}
		line = strings.TrimRight(line, "\n")
		runtime.ReadMemStats(&ms)
		before := ms.TotalAlloc
		obs := ex.Exec(line)
		runtime.ReadMemStats(&ms)
		delta := ms.TotalAlloc - before
		// proportion: 1 MiB of slack plus 64 bytes per input byte (hex halves the length)
		if role != "cmd" && delta > 1<<20+64*uint64(len(line)) {
			obs = fmt.Sprintf("alloc!%dMiB %s", delta>>20, obs)
		}
		out.WriteString(obs)
		out.WriteByte('\n')
		out.Flush()
	}
}
