package main

import (
	"fmt"
	"strings"
)

// genGenPtsCase (C20, the value clauses): the points generator of `generate` on a replayed
// random stream — same layout, maximum, clock and draws to the implementation (through the
// verif hook) and to the model; every point of every archive is compared.
func genGenPtsCase(r *Rng) []Op {
	lay := genLayout(r, false)
	for lay.FileSize() > 30000 {
		lay = genLayout(r, false)
	}
	max := r.PickInt([]int{0, 1, 1, 2, 5, 7, 100, 1000})
	if max*(lay.Steps[lay.K()-1]/lay.Steps[0]) >= 1<<30 {
		// rnd.Intn takes another route above 2^31: outside what the replayed stream models
		max = 1
	}
	now := 1500000000 + r.Intn(400000000)
	until := now
	if r.Chance(1, 5) {
		// `generate` always passes until = now; the generator itself takes an earlier until
		until = now - r.Intn(lay.Ns[0]/2+1)*lay.Steps[0]
	}
	total := 0
	for _, n := range lay.Ns {
		total += n
	}
	nd := total + r.Intn(4)
	if r.Chance(1, 6) {
		nd = r.Intn(total + 1) // an exhausted stream draws zeros
	}
	var ds []string
	for i := 0; i < nd; i++ {
		switch r.Intn(6) {
		case 0:
			ds = append(ds, "0")
		case 1:
			ds = append(ds, fmt.Sprint(max)) // the largest value of the finest archive
		case 2:
			ds = append(ds, fmt.Sprint(r.Intn(8)))
		default:
			ds = append(ds, fmt.Sprint(r.Intn(1<<20)))
		}
	}
	dl := "-"
	if len(ds) > 0 {
		dl = strings.Join(ds, ",")
	}
	return []Op{{fmt.Sprintf("genpts lay=%s max=%d until=%d now=%d draws=%s", lay, max, until, now, dl), true}}
}
