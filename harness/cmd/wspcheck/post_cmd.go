package main

import (
	"strings"
)

func opKV(line, k string) string {
	v, _ := kvGet(strings.Fields(line), k)
	return v
}

func opIs(line string, name string) bool {
	f := strings.Fields(line)
	return len(f) >= 2 && f[0] == "cmd" && f[1] == name
}

func window3(line string) string {
	return opKV(line, "archive") + "/" + opKV(line, "from") + "/" + opKV(line, "until")
}

func classWord(obs string) string {
	if strings.HasPrefix(obs, "err notexist") {
		return "err notexist"
	}
	f := strings.Fields(obs)
	if len(f) == 0 {
		return ""
	}
	return f[0]
}

func recsOfObs(obs string) []string {
	i := strings.Index(obs, "R=")
	if i < 0 {
		return nil
	}
	body := obs[i+2:]
	if j := strings.IndexByte(body, ' '); j >= 0 {
		body = body[:j]
	}
	var out []string
	for _, g := range strings.Split(body, "|") {
		if g == "-" || g == "" {
			continue
		}
		out = append(out, strings.Split(g, ",")...)
	}
	return out
}

// never: outcomes no command may have
func postNever(h HistEntry) string {
	if !strings.HasPrefix(h.Op.Line, "cmd ") {
		return ""
	}
	if strings.HasPrefix(h.Impl, "panic") || strings.HasPrefix(h.Impl, "crash") {
		return "the command panicked"
	}
	if strings.HasPrefix(h.Impl, "timeout") {
		return "the command did not return (blocked for 20 s)"
	}
	if strings.Contains(h.Impl, "!lockleak") {
		return "a file stayed locked after the command returned"
	}
	if opKV(h.Op.Line, "textout") == "bad" && classWord(h.Impl) == "ok" {
		return "success although the text output could not be opened"
	}
	return ""
}

// postCopy (C08): after a successful copy over the whole selection, diff over the same
// window shows no slot where the source has a value (none at all with copy-nan), the
// source's bytes are unchanged, and the same copy again writes nothing.
func postCopy(hist []HistEntry) string {
	last := hist[len(hist)-1]
	if v := postNever(last); v != "" {
		return v
	}
	if len(hist) < 2 {
		return ""
	}
	// find the most recent copy
	var copyE *HistEntry
	ci := -1
	for i := len(hist) - 2; i >= 0; i-- {
		if writesFile(hist[i].Op.Line) {
			return "" // something was written since: no longer "right after the copy"
		}
		if opIs(hist[i].Op.Line, "copy") {
			copyE, ci = &hist[i], i
			break
		}
	}
	if copyE == nil || classWord(copyE.Impl) != "ok" {
		return ""
	}
	if (opIs(last.Op.Line, "diff") || opIs(last.Op.Line, "copy")) && copyE.Now != last.Now {
		return "" // the clock ticked since the copy: the windows differ
	}
	switch {
	case opIs(last.Op.Line, "diff") && opKV(last.Op.Line, "pairs") == opKV(copyE.Op.Line, "pairs") &&
		window3(last.Op.Line) == window3(copyE.Op.Line) && opKV(last.Op.Line, "swap") == "":
		cls := classWord(last.Impl)
		if cls != "ok" && cls != "difffound" {
			return "diff fails after a successful copy over the same window: " + cls
		}
		for _, r := range recsOfObs(last.Impl) {
			f := strings.Split(r, ":")
			if len(f) == 5 {
				if opKV(copyE.Op.Line, "copynan") == "1" || f[2] != "nan" {
					return "after a successful copy the destination still differs from the source at archive:time " + f[0] + ":" + f[1]
				}
			}
		}
	case opIs(last.Op.Line, "copy") && last.Op.Line == copyE.Op.Line:
		// only fdisk ops in between: repeating the copy must write nothing
		for i := ci + 1; i < len(hist)-1; i++ {
			if !strings.HasPrefix(hist[i].Op.Line, "fdisk") && !opIs(hist[i].Op.Line, "diff") {
				return ""
			}
		}
		if classWord(last.Impl) == "ok" && len(recsOfObs(last.Impl)) > 0 {
			return "repeating the same copy wrote points again"
		}
	case strings.HasPrefix(last.Op.Line, "fdisk src/"):
		// the source is never modified: compare with the same probe before the copy, if any
		for i := ci - 1; i >= 0; i-- {
			if hist[i].Op.Line == last.Op.Line {
				if hist[i].Impl != last.Impl {
					return "the copy modified its source file"
				}
				break
			}
		}
	}
	return ""
}

// postSumCopy (C11): sum-diff over the same window is clean after a successful sum-copy
func postSumCopy(hist []HistEntry) string {
	last := hist[len(hist)-1]
	if v := postNever(last); v != "" {
		return v
	}
	if !opIs(last.Op.Line, "sumdiff") {
		return ""
	}
	for i := len(hist) - 2; i >= 0; i-- {
		if writesFile(hist[i].Op.Line) {
			return "" // something was written in between: no longer "right after"
		}
		if opIs(hist[i].Op.Line, "sumcopy") {
			// a clock tick between the two commands moves the window: not comparable
			if classWord(hist[i].Impl) == "ok" && opKV(hist[i].Op.Line, "items") == opKV(last.Op.Line, "items") &&
				window3(hist[i].Op.Line) == window3(last.Op.Line) && hist[i].Now == last.Now {
				if classWord(last.Impl) != "ok" {
					return "sum-diff is not clean right after a successful sum-copy over the same window: " + classWord(last.Impl)
				}
			}
			return ""
		}
	}
	return ""
}

// writesFile: a library operation that changes a file or its handle's buffer
func writesFile(line string) bool {
	for _, p := range []string{"upd ", "updmany ", "create ", "createover ", "setdisk ", "rmdisk"} {
		if strings.HasPrefix(line, p) {
			return true
		}
	}
	return false
}

// postDiff (C09): the verdict is symmetric
func postDiff(hist []HistEntry) string {
	last := hist[len(hist)-1]
	if v := postNever(last); v != "" {
		return v
	}
	if opIs(last.Op.Line, "diff") && opKV(last.Op.Line, "swap") == "1" && len(hist) >= 2 {
		prev := hist[len(hist)-2]
		// the two directions are comparable only when they ran within the same second
		if opIs(prev.Op.Line, "diff") && window3(prev.Op.Line) == window3(last.Op.Line) && prev.Now == last.Now {
			a, b := classWord(prev.Impl), classWord(last.Impl)
			if (a == "ok" || a == "difffound") && (b == "ok" || b == "difffound") && a != b {
				return "diff verdict is not symmetric: " + a + " vs " + b
			}
			if len(recsOfObs(prev.Impl)) != len(recsOfObs(last.Impl)) {
				return "diff lists a different number of slots in the two directions"
			}
		}
	}
	return ""
}

// postRemote (C12): an op followed by the same op with remote=1 must observe the same
func postRemote(hist []HistEntry) string {
	last := hist[len(hist)-1]
	if v := postNever(last); v != "" {
		return v
	}
	if strings.HasSuffix(last.Op.Line, " remote=1") && len(hist) >= 2 {
		local := strings.TrimSuffix(last.Op.Line, " remote=1")
		for i := len(hist) - 2; i >= 0 && i >= len(hist)-8; i-- {
			if hist[i].Op.Line == local {
				if hist[i].Now != last.Now {
					break // the clock ticked between the two runs: not comparable
				}
				if hist[i].Impl != last.Impl {
					return "remote result differs from local: local=" + clip(hist[i].Impl) + " remote=" + clip(last.Impl)
				}
				break
			}
		}
	}
	return ""
}

// postView (C18): every non-NaN view point inside (from, until] appears in view-raw
func postView(hist []HistEntry) string {
	last := hist[len(hist)-1]
	if v := postNever(last); v != "" {
		return v
	}
	if opIs(last.Op.Line, "viewraw") && len(hist) >= 2 {
		prev := hist[len(hist)-2]
		if opIs(prev.Op.Line, "view") && window3(prev.Op.Line) == window3(last.Op.Line) &&
			classWord(prev.Impl) == "ok" && classWord(last.Impl) == "ok" {
			raw := map[string]bool{}
			for _, r := range recsOfObs(last.Impl) {
				raw[r] = true
			}
			from, until := kvInt(strings.Fields(prev.Op.Line), "from"), kvInt(strings.Fields(prev.Op.Line), "until")
			for _, r := range recsOfObs(prev.Impl) {
				f := strings.Split(r, ":")
				if len(f) != 3 || f[2] == "nan" {
					continue
				}
				t := 0
				for _, c := range f[1] {
					t = t*10 + int(c-'0')
				}
				if until != 0 && t > from && t <= until && !raw[r] {
					return "a non-NaN point shown by view inside the range is missing from view-raw: " + r
				}
			}
		}
	}
	return ""
}

func postAny(hist []HistEntry) string { return postNever(hist[len(hist)-1]) }
