package main

import (
	"fmt"
	"math"
	"strings"
)

var xffPatterns = []uint32{0, 1, 0x00800000, 0x3f000000, 0x3f7fffff, 0x3f800000, 0x3f800001, 0x40000000,
	0x7f7fffff, 0x7f800000, 0x7f800001, 0x7fc00000, 0x7fffffff, 0x80000000, 0x80000001, 0xbf800000, 0xff800000, 0xffc00000, 0xffffffff}

func genXff(r *Rng) uint32 {
	if r.Chance(1, 2) {
		return xffPatterns[r.Intn(len(xffPatterns))]
	}
	if r.Chance(1, 2) {
		return uint32(r.U64())
	}
	return math.Float32bits(float32(r.Intn(1001)) / 1000)
}

type rawArch struct {
	step int64
	n    int64
}

// breakLayout violates one validation rule at its boundary (or none).
func breakLayout(r *Rng, l Layout) ([]rawArch, string) {
	as := make([]rawArch, l.K())
	for i := range as {
		as[i] = rawArch{int64(l.Steps[i]), int64(l.Ns[i])}
	}
	k := len(as)
	i := r.Intn(k)
	switch r.Intn(16) {
	case 15:
		// the 31-bit retention limit exactly: 2^31-1 is prime, so the only layouts whose retention
		// is the largest representable one are single archives of one point (or of step 1)
		// (a step is an int32 in the Go API: a retention of 2^31 or more needs two points)
		R := []int64{1<<31 - 2, 1<<31 - 1, 1 << 31, 1<<31 + 2, 1<<31 - 1, 1<<31 - 1}[r.Intn(6)]
		if R >= 1<<31 || (r.Chance(1, 4) && R%2 == 0) {
			return []rawArch{{R / 2, 2}}, "retention-at-2^31-boundary"
		}
		return []rawArch{{R, 1}}, "retention-at-2^31-boundary"
	case 14:
		// every pairwise rule holds, every archive alone is below 4 GiB and every retention below
		// 2^31 s, but together the archives pass 2^32 bytes (once or more): the 32-bit offsets
		// wrap, and the last archive may well end below 2^32 again
		n0 := int64(100000000 + r.Intn(250000000))
		n1 := n0/2 + 1 + int64(r.Intn(300000000))
		big := []rawArch{{1, n0}, {2, n1}}
		if r.Bool() {
			big = append(big, rawArch{4, n1/2 + 1 + int64(r.Intn(200000000))})
		}
		return big, "total-size-wraps"
	case 0, 1, 2:
		return as, "valid"
	case 3:
		return nil, "empty"
	case 4:
		as[i].step = 0
		return as, "zero-step"
	case 5:
		as[i].n = 0
		return as, "zero-points"
	case 6:
		as[i].step = -as[i].step
		return as, "negative-step"
	case 7:
		if k > 1 {
			j := r.Intn(k - 1)
			as[j+1].step = as[j].step
			return as, "equal-steps"
		}
	case 8:
		if k > 1 {
			j := r.Intn(k - 1)
			as[j+1].step = as[j+1].step + 1
			return as, "non-dividing-or-coarser"
		}
	case 9:
		if k > 1 {
			j := r.Intn(k - 1)
			// equal retentions: n_{j+1} = ret_j / step_{j+1} when it divides, else one short
			as[j+1].n = as[j].step * as[j].n / as[j+1].step
			if as[j+1].n == 0 {
				as[j+1].n = 1
			}
			return as, "retention-not-longer"
		}
	case 10:
		if k > 1 {
			j := r.Intn(k - 1)
			as[j].n = as[j+1].step/as[j].step - 1
			return as, "one-point-too-few"
		}
	case 11: // retention overflows int32
		if r.Chance(1, 3) {
			// step x points passes 2^32 (once or a few times) by less than 2^31: the product taken
			// in 32 bits is a small positive number again, while the count is far too small for
			// the file-size rule to refuse the archive
			st := int64(r.PickInt([]int{60, 300, 600, 3600, 86400}))
			if as[k-1].step >= 30 {
				st = as[k-1].step
			}
			laps := int64(1 + r.Intn(3))
			n := (laps<<32+int64(r.Intn(1<<20)))/st + 1
			if r.Bool() {
				n = (laps<<32+int64(r.Intn(1<<31-1<<21)))/st + 1
			}
			if k > 1 && as[k-1].step == st && r.Bool() {
				as[k-1].n = n
				return as, "retention-wraps-2^32"
			}
			return []rawArch{{st, n}}, "retention-wraps-2^32"
		}
		as[k-1].n = (1<<31)/as[k-1].step + int64(r.Intn(3)) - 1
		return as, "retention-near-2^31"
	case 12: // file size overflows uint32
		as[k-1].n = (1<<32-int64(l.HdrSize()))/12 + int64(r.Intn(3)) - 1
		for j := 0; j < k-1; j++ {
			as[k-1].n -= as[j].n
		}
		as[k-1].step = 1
		if k > 1 {
			return as, "size-near-2^32-broken-steps"
		}
		return as, "size-near-2^32"
	case 13:
		if r.Bool() {
			// one archive whose own byte size passes 2^32 by a little (or by a few laps): twelve
			// times the count, taken modulo 2^32, is small again
			laps := int64(1 + r.Intn(3))
			n := (laps<<32)/12 + 1 + int64(r.Intn(2000))
			if n > 1<<32-1 {
				n = 1<<32 - 1
			}
			st := int64(1 + r.Intn(5))
			if st*n >= 1<<31 {
				st = 1
			}
			return []rawArch{{st, n}}, "one-archive-size-wraps"
		}
		as[i].n = 1<<32 - 1
		return as, "max-points"
	}
	return as, "valid"
}

func rawLay(as []rawArch) string {
	if len(as) == 0 {
		return "-"
	}
	var p []string
	for _, a := range as {
		p = append(p, fmt.Sprintf("%d:%d", a.step, a.n))
	}
	return strings.Join(p, ",")
}

func headerBytesFor(as []rawArch, agg uint32, xff uint32, count uint32, wrapOffsets bool) []byte {
	var b []byte
	maxRet := int64(0)
	if len(as) > 0 {
		maxRet = as[len(as)-1].step * as[len(as)-1].n
	}
	b = append(b, be32b(agg)...)
	b = append(b, be32b(uint32(maxRet))...)
	b = append(b, be32b(xff)...)
	b = append(b, be32b(count)...)
	off := uint64(16 + 12*len(as))
	for _, a := range as {
		b = append(b, be32b(uint32(off))...)
		b = append(b, be32b(uint32(a.step))...)
		b = append(b, be32b(uint32(a.n))...)
		off += 12 * uint64(a.n)
	}
	return b
}

func hexOfString(s string) string { return hx([]byte(s)) }

func genValidateOps(r *Rng) []Op {
	var ops []Op
	for c := 0; c < 4; c++ {
		l := genLayout(r, r.Chance(1, 6))
		as, _ := breakLayout(r, l)
		agg := uint32(1 + r.Intn(6))
		if r.Chance(1, 4) {
			agg = uint32(r.Intn(10))
		}
		xff := math.Float32bits(0.5)
		if r.Chance(1, 3) {
			xff = genXff(r)
		}
		// 1. NewHeader / Create
		ops = append(ops, Op{fmt.Sprintf("newheader %s %d %08x", rawLay(as), agg, xff), true})
		// 2. Header.TakeFrom on the same fields
		hb := headerBytesFor(as, agg, xff, uint32(len(as)), false)
		ops = append(ops, Op{"dec header " + hx(hb), true})
		// 3. Open on a file with that header (only when the file is small)
		total := int64(len(hb))
		small := true
		for _, a := range as {
			if a.n < 0 || a.n > 2000 {
				small = false
			}
			total += 12 * a.n
		}
		if small && total < 200000 {
			file := append(append([]byte{}, hb...), make([]byte, total-int64(len(hb)))...)
			ops = append(ops, Op{"reset", false}, Op{"setdisk " + hx(file), false}, Op{"open", true}, Op{"header", true}, Op{"drop", false})
		}
		// 4. the retention string (when every value can be written as seconds)
		var parts []string
		ok := len(as) > 0
		for _, a := range as {
			if a.step <= 0 || a.n <= 0 {
				ok = false
				break
			}
			parts = append(parts, fmt.Sprintf("%ds:%ds", a.step, a.step*a.n))
		}
		if ok {
			s := strings.Join(parts, ",")
			ops = append(ops, Op{"parsearchs " + hexOfString(s), true})
			ops = append(ops, Op{"parsearchsflag " + hexOfString(s), true})
		}
	}
	// method names through the flag parser, xFilesFactor through the flag parser
	names := []string{"average", "sum", "last", "max", "min", "first", "mix", "percentile", "avg", "", "Sum"}
	n := names[r.Intn(len(names))]
	if n != "" {
		ops = append(ops, Op{"aggflag " + n, true}, Op{"aggparse " + n, true})
	}
	ops = append(ops, Op{fmt.Sprintf("aggname %d", r.Intn(11)), true})
	ops = append(ops, Op{fmt.Sprintf("xffflagbits %08x", genXff(r)), true})
	return ops
}
