package main

import (
	"bytes"
	"encoding/binary"
	"encoding/hex"
	"fmt"
	"math"
	"strconv"
	"strings"

	wt "github.com/hnakamur/whispertool"
)

// ImplCodec executes codec and text operations on the real code (stateless).
type ImplCodec struct{}

func (ImplCodec) Cleanup() {}

func hexOrDash(b []byte) string {
	if len(b) == 0 {
		return "-"
	}
	return hex.EncodeToString(b)
}

func unhex(s string) ([]byte, bool) {
	if s == "-" {
		return []byte{}, true
	}
	b, err := hex.DecodeString(s)
	return b, err == nil
}

// restObs checks that the remainder is the untouched tail of the input (slice aliasing).
func restObs(src, rest []byte) string {
	if len(rest) > len(src) {
		return fmt.Sprintf("rest=%d!longer", len(rest))
	}
	if len(rest) > 0 && &rest[0] != &src[len(src)-len(rest)] {
		return fmt.Sprintf("rest=%d!moved", len(rest))
	}
	return fmt.Sprintf("rest=%d", len(rest))
}

func archStrFromBytes(b []byte) string {
	return fmt.Sprintf("%d:%d:%d", binary.BigEndian.Uint32(b), int32(binary.BigEndian.Uint32(b[4:])), binary.BigEndian.Uint32(b[8:]))
}

func (ImplCodec) Exec(line string) (obs string) {
	defer func() {
		if r := recover(); r != nil {
			obs = "panic"
		}
	}()
	tk := strings.Fields(line)
	if len(tk) < 2 {
		return "bad-op"
	}
	switch tk[0] {
	case "dec":
		src, ok := unhex(tk[2])
		if !ok {
			return "bad-op"
		}
		switch tk[1] {
		case "ts":
			var t wt.Timestamp
			rest, err := t.TakeFrom(src)
			if err != nil {
				return errObs(err)
			}
			return fmt.Sprintf("ok %d %s", uint32(t), restObs(src, rest))
		case "dur":
			var d wt.Duration
			rest, err := d.TakeFrom(src)
			if err != nil {
				return errObs(err)
			}
			return fmt.Sprintf("ok %d %s", int32(d), restObs(src, rest))
		case "val":
			var v wt.Value
			rest, err := v.TakeFrom(src)
			if err != nil {
				return errObs(err)
			}
			return fmt.Sprintf("ok %s %s", valHex(v), restObs(src, rest))
		case "point":
			var p wt.Point
			rest, err := p.TakeFrom(src)
			if err != nil {
				return errObs(err)
			}
			return fmt.Sprintf("ok %s %s", ptsStr([]wt.Point{p}), restObs(src, rest))
		case "points":
			// decoded twice: into a fresh destination and into one that already holds points
			// (TakeFrom is a method on a destination the caller may reuse); the results must agree
			decP := func(pp *wt.Points) string {
				rest, err := pp.TakeFrom(src)
				if err != nil {
					return errObs(err)
				}
				return fmt.Sprintf("ok %s %s", ptsStr(*pp), restObs(src, rest))
			}
			var fresh wt.Points
			used := wt.Points{{Time: 7, Value: 7}, {Time: 8, Value: 8}, {Time: 9, Value: 9}}
			a, b := decP(&fresh), decP(&used)
			if a != b {
				return "fresh/used differ: " + a + " | " + b
			}
			return a
		case "series":
			decS := func(ts *wt.TimeSeries) string {
				rest, err := ts.TakeFrom(src)
				if err != nil {
					return errObs(err)
				}
				return fmt.Sprintf("ok %d %d %d %s %s", uint32(ts.FromTime()), uint32(ts.UntilTime()), int32(ts.Step()), valsStr(ts.Values()), restObs(src, rest))
			}
			a, b := decS(&wt.TimeSeries{}), decS(wt.NewTimeSeries(3, 11, 2, []wt.Value{1, 2, 3, 4}))
			if a != b {
				return "fresh/used differ: " + a + " | " + b
			}
			return a
		case "arch":
			var a wt.ArchiveInfo
			rest, err := a.TakeFrom(src)
			if err != nil {
				return errObs(err)
			}
			return fmt.Sprintf("ok %s %s", archStrFromBytes(a.AppendTo(nil)), restObs(src, rest))
		case "header":
			decH := func(h *wt.Header) string {
				rest, err := h.TakeFrom(src)
				if err != nil {
					return errObs(err)
				}
				return fmt.Sprintf("ok %s %s", headerObs(h), restObs(src, rest))
			}
			used := &wt.Header{}
			if ul, err := wt.ParseArchiveInfoList("1s:5s,5s:1m,1m:1h"); err == nil {
				if uh, err := wt.NewHeader(wt.Max, 0.25, ul); err == nil {
					used = uh
				}
			}
			a, b := decH(&wt.Header{}), decH(used)
			if a != b {
				return "fresh/used differ: " + a + " | " + b
			}
			return a
		}
	case "enc":
		switch tk[1] {
		case "ts":
			n, _ := strconv.ParseUint(tk[2], 10, 32)
			t := wt.Timestamp(n)
			return appendEnc(t.AppendTo)
		case "dur":
			n, _ := strconv.ParseInt(tk[2], 10, 32)
			d := wt.Duration(n)
			return appendEnc(d.AppendTo)
		case "val":
			v, _ := parseValHex(tk[2])
			return appendEnc(v.AppendTo)
		case "point":
			ps, err := parsePts(tk[2])
			if err != nil || len(ps) != 1 {
				return "bad-op"
			}
			return appendEnc(ps[0].AppendTo)
		case "points":
			ps, err := parsePts(tk[2])
			if err != nil {
				return "bad-op"
			}
			pp := wt.Points(ps)
			return appendEnc(pp.AppendTo)
		case "series":
			if tk[2] == "nil" {
				var ts *wt.TimeSeries
				return appendEnc(ts.AppendTo)
			}
			f, _ := strconv.ParseUint(tk[2], 10, 32)
			u, _ := strconv.ParseUint(tk[3], 10, 32)
			st, _ := strconv.ParseInt(tk[4], 10, 32)
			var vals []wt.Value
			if tk[5] != "-" {
				for _, s := range strings.Split(tk[5], ",") {
					v, _ := parseValHex(s)
					vals = append(vals, v)
				}
			}
			ts := wt.NewTimeSeries(wt.Timestamp(f), wt.Timestamp(u), wt.Duration(st), vals)
			return appendEnc(ts.AppendTo)
		}
	case "newheader", "newheaderhex":
		lay, err := parseLay(tk[1])
		if err != nil {
			return "bad-op"
		}
		agg, _ := strconv.Atoi(tk[2])
		xb, _ := strconv.ParseUint(tk[3], 16, 32)
		mk := func(l []wt.ArchiveInfo) string {
			h, err := wt.NewHeader(wt.AggregationMethod(agg), math.Float32frombits(uint32(xb)), l)
			if err != nil {
				return errObs(err)
			}
			if tk[0] == "newheaderhex" {
				return "ok " + appendEnc(h.AppendTo)
			}
			return "ok " + headerObs(h)
		}
		fresh := mk(lay)
		// a list of mixed provenance: its first element comes out of another, already laid-out
		// list of the same length (so it carries that list's first offset), the others are new;
		// NewHeader lays the list out itself, so the result must be the same
		if len(lay) >= 2 && lay[0].SecondsPerPoint() > 0 && lay[0].NumberOfPoints() >= 2 && lay[0].NumberOfPoints() < 1<<20 {
			var parts []string
			st, n := int64(lay[0].SecondsPerPoint()), int64(lay[0].NumberOfPoints())
			for range lay {
				parts = append(parts, fmt.Sprintf("%ds:%ds", st, st*n))
				st, n = st*2, n*2
			}
			if donor, err := wt.ParseArchiveInfoList(strings.Join(parts, ",")); err == nil && len(donor) == len(lay) {
				lay2, _ := parseLay(tk[1]) // NewHeader lays its argument out in place: start from new elements
				mixed := append([]wt.ArchiveInfo{donor[0]}, lay2[1:]...)
				if m := mk(mixed); m != fresh {
					return "fresh/mixed differ: " + fresh + " | " + m
				}
			}
		}
		// a list taken whole out of a longer, already laid-out one (the archives of a file with one
		// more, coarser archive): every element carries an offset, none of them right for this list
		if k := len(lay); k >= 1 && strings.HasPrefix(fresh, "ok") {
			last := lay[k-1]
			st, n := int64(last.SecondsPerPoint()), int64(last.NumberOfPoints())
			if n >= 2 && st*n*4 < 1<<31 {
				var parts []string
				for _, a := range lay {
					parts = append(parts, fmt.Sprintf("%ds:%ds", int64(a.SecondsPerPoint()), int64(a.SecondsPerPoint())*int64(a.NumberOfPoints())))
				}
				parts = append(parts, fmt.Sprintf("%ds:%ds", st*2, st*n*4))
				if donor, err := wt.ParseArchiveInfoList(strings.Join(parts, ",")); err == nil && len(donor) == k+1 {
					taken := append([]wt.ArchiveInfo(nil), donor[:k]...)
					if m := mk(taken); m != fresh {
						return "fresh/taken-from-longer differ: " + fresh + " | " + m
					}
				}
			}
		}
		return fresh
	}
	return textExec(tk)
}

func stripAlloc(s string) string {
	if i := strings.Index(s, " alloc="); i >= 0 {
		return s[:i]
	}
	return s
}

// canonCodec: exact bits (no NaN folding); only error kinds collapse.
func canonCodec(s string) string {
	s = stripAlloc(s)
	if strings.HasPrefix(s, "err") {
		return "err"
	}
	return s
}

// appendEnc encodes through AppendTo three ways — onto nil, onto a buffer that already holds
// a message and has room to spare, and onto one that has no room (or too little) — and
// answers with the encoding when all three agree and the bytes that were there are still
// there.  "Concatenated messages decode in sequence" starts with concatenation keeping them.
func appendEnc(f func([]byte) []byte) string {
	enc := f(nil)
	for _, c := range []struct{ n, spare int }{{5, 0}, {12, 3}, {28, 4096}, {1, len(enc)}, {40, len(enc) - 1}} {
		if c.spare < 0 {
			c.spare = 0
		}
		dst := make([]byte, c.n, c.n+c.spare)
		for i := range dst {
			dst[i] = byte(0xA0 + i%23)
		}
		keep := append([]byte(nil), dst...)
		out := f(dst)
		if len(out) != c.n+len(enc) || !bytes.Equal(out[:c.n], keep) || !bytes.Equal(out[c.n:], enc) {
			return fmt.Sprintf("append-differs: onto %d bytes with %d to spare gave %s, alone %s", c.n, c.spare, hexOrDash(out), hexOrDash(enc))
		}
	}
	return hexOrDash(enc)
}
