package main

import (
	"encoding/json"
	"fmt"
	"io/ioutil"
	"os"
	"path/filepath"
	"sort"
	"strings"
	"time"
)

// Executor runs protocol lines on the real code.
type Executor interface {
	Exec(line string) string
	Cleanup()
}

type Divergence struct {
	Index int
	Op    Op
	Impl  string
	Model string
	S     bool   // spec-level divergence (property violation at this input)
	MLine string // the line handed to the model (with data appended by the implementation side)
}

// Classifier decides the stratum of a divergence; nil means "the op's own S flag".
type Classifier func(op Op, impl, model string) bool

// HistEntry is one executed op with the implementation's canonical observation.
type HistEntry struct {
	Op   Op
	Impl string
	Now  string // the wall clock a command used, when it reported one
}

// PostCheck is a property-level assertion over the implementation's own observations
// (no model involved): it returns a non-empty description when the last entry of the
// history violates the property given the earlier ones.
type PostCheck func(hist []HistEntry) string

var currentPost PostCheck

// Stats collects what a run covered (written to the evidence file).
type Stats struct {
	Evaluations int
	Cases       int
	ByKind      map[string]int
	Classes     map[string]bool // distinct non-trivial (layout/op-kind/outcome) classes
	Hist        map[string]int
	Samples     []string
	SOps        int
	MOps        int
}

func NewStats() *Stats {
	return &Stats{ByKind: map[string]int{}, Classes: map[string]bool{}, Hist: map[string]int{}}
}

func outcomeClass(obs string) (class string, nontrivial bool) {
	f := strings.Fields(obs)
	if len(f) == 0 {
		return "empty", false
	}
	switch f[0] {
	case "ok":
		if len(f) == 1 {
			return "ok", true
		}
		// count known values to separate all-NaN / all-zero results from informative ones
		last := f[len(f)-1]
		known := 0
		for _, p := range strings.Split(last, ",") {
			v := p
			if j := strings.IndexByte(p, ':'); j >= 0 {
				v = p[j+1:]
			}
			if v != "nan" && v != "0000000000000000" && v != "-" {
				known++
			}
		}
		if known == 0 {
			return "ok-empty", false
		}
		if known < 4 {
			return fmt.Sprintf("ok-%d", known), true
		}
		return "ok-many", true
	case "none":
		return "none", true
	case "err":
		return obs, true
	case "want":
		return "want", true
	case "panic":
		return "panic", true
	}
	if len(f) == 1 {
		return "text", true
	}
	return f[0], false
}

func (st *Stats) record(ctx string, op Op, obs string) {
	st.Evaluations++
	toks := strings.Fields(op.Line)
	kind := toks[0]
	if (kind == "dec" || kind == "enc") && len(toks) > 2 {
		// codec ops: the wire type and the size class of the argument are part of the case's identity
		sz := 0
		for n := len(toks[len(toks)-1]); n > 0; n >>= 1 {
			sz++
		}
		kind = fmt.Sprintf("%s-%s", kind, toks[1])
		ctx = fmt.Sprintf("len2^%d", sz)
	}
	switch kind {
	case "parsedur", "parsearch", "parsearchs", "parsearchsflag", "parsets", "parsetsflag", "printdur", "printts", "printarchs",
		"newheader", "xffflagbits", "aggflag", "aggparse", "aggname":
		// stateless text/validation ops: every distinct input is a distinct case
		ctx = fmt.Sprintf("%x", fnv64([]byte(op.Line)))
	}
	st.ByKind[kind]++
	if op.S {
		st.SOps++
	} else {
		st.MOps++
	}
	cls, nt := outcomeClass(obs)
	st.Hist[kind+"/"+cls]++
	if nt {
		st.Classes[ctx+"|"+kind+"|"+cls] = true
	}
}

// runCase executes the ops on both sides; it stops at the first divergence.
func runCase(ex Executor, d *Drv, ops []Op, st *Stats, canon func(string) string, cl Classifier) *Divergence {
	ctx := ""
	var hist []HistEntry
	for i, op := range ops {
		if strings.HasPrefix(op.Line, "create ") {
			ctx = strings.Fields(op.Line)[1]
		}
		raw := ex.Exec(op.Line)
		if strings.HasPrefix(raw, "skip") {
			// the wall clock ticked inside a command: the case is inconclusive, drop the rest
			return nil
		}
		mline := op.Line
		nowUsed := ""
		if j := strings.LastIndex(raw, " @now="); j >= 0 {
			// commands read the wall clock themselves: hand the model the clock they used
			nowUsed = raw[j+6:]
			mline += " now=" + nowUsed
			raw = raw[:j]
		}
		if j := strings.LastIndex(raw, " @append="); j >= 0 {
			// data only the implementation has (e.g. the content of a randomly generated
			// file) is handed to the model / spec oracle on the same line
			mline += " " + raw[j+9:]
			raw = raw[:j]
		}
		io := canon(raw)
		mo := canon(d.Ask(mline))
		if st != nil {
			st.record(ctx, op, io)
		}
		if currentPost != nil {
			hist = append(hist, HistEntry{op, io, nowUsed})
			if v := currentPost(hist); v != "" {
				return &Divergence{i, op, io, "spec: " + v, true, mline}
			}
		}
		if cl != nil && io == mo && cl(op, io, mo) {
			// both sides agree on an outcome the property forbids
			return &Divergence{i, op, io, mo, true, mline}
		}
		if io != mo {
			isS := op.S
			if cl != nil {
				isS = cl(op, io, mo)
			}
			if !isS && cl != nil {
				// model and implementation have parted ways on a fidelity matter; the property-level
				// assertion on the implementation's own outcomes still applies to the rest of the case
				for j := i + 1; j < len(ops); j++ {
					r2 := ex.Exec(ops[j].Line)
					if k := strings.LastIndex(r2, " @now="); k >= 0 {
						r2 = r2[:k]
					}
					o2 := canon(r2)
					if cl(ops[j], o2, "") {
						return &Divergence{j, ops[j], o2, "(model left behind at op " + fmt.Sprint(i) + ": " + clip(mo) + ")", true, ops[j].Line}
					}
				}
			}
			if !isS && cl == nil {
				// a fidelity-level difference (e.g. in the raw slots); the same cause may show at
				// property level further on: keep running both sides and prefer a later divergence
				// on an op the property speaks about — that one is a concrete failing input
				for j := i + 1; j < len(ops); j++ {
					r2 := ex.Exec(ops[j].Line)
					if strings.HasPrefix(r2, "skip") {
						break
					}
					ml := ops[j].Line
					if k := strings.LastIndex(r2, " @now="); k >= 0 {
						ml += " now=" + r2[k+6:]
						r2 = r2[:k]
					}
					if k := strings.LastIndex(r2, " @append="); k >= 0 {
						ml += " " + r2[k+9:]
						r2 = r2[:k]
					}
					i2, m2 := canon(r2), canon(d.Ask(ml))
					if i2 != m2 && ops[j].S {
						return &Divergence{j, ops[j], i2, m2, true, ml}
					}
				}
			}
			return &Divergence{i, op, io, mo, isS, mline}
		}
	}
	return nil
}

// shrink removes ops (never the leading reset/create) while a divergence of the same
// stratum persists.
func divSig(dv *Divergence) string {
	kind := strings.Fields(dv.Op.Line)[0]
	ic, _ := outcomeClass(dv.Impl)
	mc, _ := outcomeClass(dv.Model)
	return fmt.Sprintf("%s impl=%s model=%s", kind, ic, mc)
}

func shrink(mk func() Executor, ops []Op, canon func(string) string, cl Classifier, wantS bool, wantSig string) ([]Op, *Divergence) {
	budget := 80
	deadline := time.Now().Add(25 * time.Second)
	test := func(cand []Op) *Divergence {
		if budget <= 0 || time.Now().After(deadline) {
			return nil
		}
		budget--
		ex := mk()
		defer ex.Cleanup()
		d := mustDrv()
		defer d.Close()
		dv := runCase(ex, d, cand, nil, canon, cl)
		if dv != nil && dv.S == wantS && divSig(dv) == wantSig {
			return dv
		}
		return nil
	}
	best := test(ops)
	if best == nil {
		return ops, nil
	}
	ops = ops[:best.Index+1]
	chunk := len(ops) / 2
	for chunk >= 1 {
		changed := false
		for start := 1; start+chunk <= len(ops)-1; {
			// keep op 0 (reset) and the final (diverging) op
			if strings.HasPrefix(ops[start].Line, "create ") && chunk == 1 {
				start++
				continue
			}
			cand := append(append([]Op{}, ops[:start]...), ops[start+chunk:]...)
			if dv := test(cand); dv != nil {
				ops = cand[:dv.Index+1]
				best = dv
				changed = true
			} else {
				start += chunk
			}
		}
		if !changed {
			chunk /= 2
		}
	}
	return ops, best
}

type Replay struct {
	Property  string   `json:"property"`
	Kind      string   `json:"kind"` // "property-violation" | "correspondence-broken" | "obligation-broken"
	Stratum   string   `json:"stratum,omitempty"`
	Seed      uint64   `json:"seed"`
	Ops       []string `json:"ops,omitempty"`
	Impl      string   `json:"impl_observation,omitempty"`
	Model     string   `json:"model_observation,omitempty"`
	Note      string   `json:"note,omitempty"`
	Suite     string   `json:"suite,omitempty"`
	Signature string   `json:"signature,omitempty"`
}

func writeReplay(verifDir string, r Replay) string {
	dir := filepath.Join(verifDir, "replays")
	os.MkdirAll(dir, 0755)
	name := fmt.Sprintf("%s-%s-%d.json", r.Property, r.Suite, time.Now().UnixNano())
	path := filepath.Join(dir, name)
	b, _ := json.MarshalIndent(r, "", " ")
	ioutil.WriteFile(path, b, 0644)
	return path
}

func opsLines(ops []Op) []string {
	out := make([]string, len(ops))
	for i, o := range ops {
		out[i] = o.Line
		if o.S {
			out[i] += "   #S"
		}
	}
	return out
}

func sortedKeys(m map[string]int) []string {
	ks := make([]string, 0, len(m))
	for k := range m {
		ks = append(ks, k)
	}
	sort.Strings(ks)
	return ks
}
