package main

import (
	"encoding/json"
	"fmt"
	"io/ioutil"
	"os"
	"path/filepath"
	"sort"
	"strings"
	"time"
)

// Executor runs protocol lines on the real code.
type Executor interface {
	Exec(line string) string
	Cleanup()
}

type Divergence struct {
	Index int
	Op    Op
	Impl  string
	Model string
	S     bool // spec-level divergence (property violation at this input)
}

// Classifier decides the stratum of a divergence; nil means "the op's own S flag".
type Classifier func(op Op, impl, model string) bool

// Stats collects what a run covered (written to the evidence file).
type Stats struct {
	Evaluations int
	Cases       int
	ByKind      map[string]int
	Classes     map[string]bool // distinct non-trivial (layout/op-kind/outcome) classes
	Hist        map[string]int
	Samples     []string
	SOps        int
	MOps        int
}

func NewStats() *Stats {
	return &Stats{ByKind: map[string]int{}, Classes: map[string]bool{}, Hist: map[string]int{}}
}

func outcomeClass(obs string) (class string, nontrivial bool) {
	f := strings.Fields(obs)
	if len(f) == 0 {
		return "empty", false
	}
	switch f[0] {
	case "ok":
		if len(f) == 1 {
			return "ok", true
		}
		// count known values to separate all-NaN / all-zero results from informative ones
		last := f[len(f)-1]
		known := 0
		for _, p := range strings.Split(last, ",") {
			v := p
			if j := strings.IndexByte(p, ':'); j >= 0 {
				v = p[j+1:]
			}
			if v != "nan" && v != "0000000000000000" && v != "-" {
				known++
			}
		}
		if known == 0 {
			return "ok-empty", false
		}
		if known < 4 {
			return fmt.Sprintf("ok-%d", known), true
		}
		return "ok-many", true
	case "none":
		return "none", true
	case "err":
		return obs, true
	case "want":
		return "want", true
	case "panic":
		return "panic", true
	}
	if len(f) == 1 {
		return "text", true
	}
	return f[0], false
}

func (st *Stats) record(ctx string, op Op, obs string) {
	st.Evaluations++
	toks := strings.Fields(op.Line)
	kind := toks[0]
	if (kind == "dec" || kind == "enc") && len(toks) > 2 {
		// codec ops: the wire type and the size class of the argument are part of the case's identity
		sz := 0
		for n := len(toks[len(toks)-1]); n > 0; n >>= 1 {
			sz++
		}
		kind = fmt.Sprintf("%s-%s", kind, toks[1])
		ctx = fmt.Sprintf("len2^%d", sz)
	}
	switch kind {
	case "parsedur", "parsearch", "parsearchs", "parsearchsflag", "parsets", "parsetsflag", "printdur", "printts", "printarchs",
		"newheader", "xffflagbits", "aggflag", "aggparse", "aggname":
		// stateless text/validation ops: every distinct input is a distinct case
		ctx = fmt.Sprintf("%x", fnv64([]byte(op.Line)))
	}
	st.ByKind[kind]++
	if op.S {
		st.SOps++
	} else {
		st.MOps++
	}
	cls, nt := outcomeClass(obs)
	st.Hist[kind+"/"+cls]++
	if nt {
		st.Classes[ctx+"|"+kind+"|"+cls] = true
	}
}

// runCase executes the ops on both sides; it stops at the first divergence.
func runCase(ex Executor, d *Drv, ops []Op, st *Stats, canon func(string) string, cl Classifier) *Divergence {
	ctx := ""
	for i, op := range ops {
		if strings.HasPrefix(op.Line, "create ") {
			ctx = strings.Fields(op.Line)[1]
		}
		io := canon(ex.Exec(op.Line))
		mo := canon(d.Ask(op.Line))
		if st != nil {
			st.record(ctx, op, io)
		}
		if cl != nil && io == mo && cl(op, io, mo) {
			// both sides agree on an outcome the property forbids
			return &Divergence{i, op, io, mo, true}
		}
		if io != mo {
			isS := op.S
			if cl != nil {
				isS = cl(op, io, mo)
			}
			return &Divergence{i, op, io, mo, isS}
		}
	}
	return nil
}

// shrink removes ops (never the leading reset/create) while a divergence of the same
// stratum persists.
func divSig(dv *Divergence) string {
	kind := strings.Fields(dv.Op.Line)[0]
	ic, _ := outcomeClass(dv.Impl)
	mc, _ := outcomeClass(dv.Model)
	return fmt.Sprintf("%s impl=%s model=%s", kind, ic, mc)
}

func shrink(mk func() Executor, ops []Op, canon func(string) string, cl Classifier, wantS bool, wantSig string) ([]Op, *Divergence) {
	test := func(cand []Op) *Divergence {
		ex := mk()
		defer ex.Cleanup()
		d := mustDrv()
		defer d.Close()
		dv := runCase(ex, d, cand, nil, canon, cl)
		if dv != nil && dv.S == wantS && divSig(dv) == wantSig {
			return dv
		}
		return nil
	}
	best := test(ops)
	if best == nil {
		return ops, nil
	}
	ops = ops[:best.Index+1]
	chunk := len(ops) / 2
	for chunk >= 1 {
		changed := false
		for start := 1; start+chunk <= len(ops)-1; {
			// keep op 0 (reset) and the final (diverging) op
			if strings.HasPrefix(ops[start].Line, "create ") && chunk == 1 {
				start++
				continue
			}
			cand := append(append([]Op{}, ops[:start]...), ops[start+chunk:]...)
			if dv := test(cand); dv != nil {
				ops = cand[:dv.Index+1]
				best = dv
				changed = true
			} else {
				start += chunk
			}
		}
		if !changed {
			chunk /= 2
		}
	}
	return ops, best
}

type Replay struct {
	Property   string   `json:"property"`
	Kind       string   `json:"kind"` // "property-violation" | "correspondence-broken" | "obligation-broken"
	Stratum    string   `json:"stratum,omitempty"`
	Seed       uint64   `json:"seed"`
	Ops        []string `json:"ops,omitempty"`
	Impl       string   `json:"impl_observation,omitempty"`
	Model      string   `json:"model_observation,omitempty"`
	Note       string   `json:"note,omitempty"`
	Suite      string   `json:"suite,omitempty"`
	Signature  string   `json:"signature,omitempty"`
}

func writeReplay(verifDir string, r Replay) string {
	dir := filepath.Join(verifDir, "replays")
	os.MkdirAll(dir, 0755)
	name := fmt.Sprintf("%s-%s-%d.json", r.Property, r.Suite, time.Now().UnixNano())
	path := filepath.Join(dir, name)
	b, _ := json.MarshalIndent(r, "", " ")
	ioutil.WriteFile(path, b, 0644)
	return path
}

func opsLines(ops []Op) []string {
	out := make([]string, len(ops))
	for i, o := range ops {
		out[i] = o.Line
		if o.S {
			out[i] += "   #S"
		}
	}
	return out
}

func sortedKeys(m map[string]int) []string {
	ks := make([]string, 0, len(m))
	for k := range m {
		ks = append(ks, k)
	}
	sort.Strings(ks)
	return ks
}
