package main

import (
	"encoding/binary"
	"encoding/hex"
	"fmt"
	"math"
)

var extreme32 = []uint32{0, 1, 2, 3, 12, 0x15555555, 0x15555556, 0x20000000, 0x7fffffff, 0x80000000, 0x80000001, 0xfffffff4, 0xffffffff}
var extreme64 = []uint64{0, 1, 2, 1 << 31, 1<<32 - 1, 1 << 32, 357913941, 357913942, 0x1555555555555555, 0x1555555555555556,
	1<<63 - 1, 1 << 63, 1<<64 - 1, 0x2000000000000000}

func be32b(v uint32) []byte { b := make([]byte, 4); binary.BigEndian.PutUint32(b, v); return b }
func be64b(v uint64) []byte { b := make([]byte, 8); binary.BigEndian.PutUint64(b, v); return b }

func randBytes(r *Rng, n int) []byte {
	b := make([]byte, n)
	for i := range b {
		b[i] = byte(r.Intn(256))
	}
	return b
}

func mutate(r *Rng, b []byte) []byte {
	c := append([]byte{}, b...)
	switch r.Intn(4) {
	case 0: // bit flips
		for i := 0; i < 1+r.Intn(3) && len(c) > 0; i++ {
			c[r.Intn(len(c))] ^= 1 << uint(r.Intn(8))
		}
	case 1: // truncate
		if len(c) > 0 {
			c = c[:r.Intn(len(c))]
		}
	case 2: // overwrite a 32-bit field with an extreme
		if len(c) >= 4 {
			off := 4 * r.Intn(len(c)/4)
			copy(c[off:], be32b(extreme32[r.Intn(len(extreme32))]))
		}
	default: // extend with noise
		c = append(c, randBytes(r, r.Intn(20))...)
	}
	return c
}

func hx(b []byte) string {
	if len(b) == 0 {
		return "-"
	}
	return hex.EncodeToString(b)
}

func validHeaderBytes(r *Rng) ([]byte, Layout) {
	g := newLibGen(r.Fork(), "C15", false)
	var b []byte
	b = append(b, be32b(uint32(g.agg))...)
	b = append(b, be32b(uint32(g.lay.MaxRet()))...)
	b = append(b, be32b(g.xff)...)
	b = append(b, be32b(uint32(g.lay.K()))...)
	off := g.lay.HdrSize()
	for i := range g.lay.Steps {
		b = append(b, be32b(uint32(off))...)
		b = append(b, be32b(uint32(g.lay.Steps[i]))...)
		b = append(b, be32b(uint32(g.lay.Ns[i]))...)
		off += 12 * g.lay.Ns[i]
	}
	return b, g.lay
}

// genHostileCodec: byte strings for the decoders.
func genHostileCodec(r *Rng) []Op {
	var ops []Op
	add := func(typ string, b []byte) { ops = append(ops, Op{fmt.Sprintf("dec %s %s", typ, hx(b)), true}) }
	types := []string{"ts", "dur", "val", "point", "points", "series", "arch", "header"}
	for i := 0; i < 10; i++ {
		switch r.Intn(6) {
		case 0:
			add(types[r.Intn(len(types))], randBytes(r, r.Intn(64)))
		case 1: // header with an extreme count
			hb, _ := validHeaderBytes(r)
			copy(hb[12:], be32b(extreme32[r.Intn(len(extreme32))]))
			if r.Bool() {
				hb = hb[:16+r.Intn(len(hb)-15)]
			}
			add("header", hb)
		case 2: // mutated valid header
			hb, _ := validHeaderBytes(r)
			add("header", mutate(r, hb))
		case 3: // series with extreme from/until/step and few bytes
			var b []byte
			b = append(b, be32b(extreme32[r.Intn(len(extreme32))])...)
			b = append(b, be32b(extreme32[r.Intn(len(extreme32))])...)
			st := extreme32[r.Intn(len(extreme32))]
			if r.Bool() {
				st = uint32(1 + r.Intn(5))
			}
			b = append(b, be32b(st)...)
			b = append(b, randBytes(r, 8*r.Intn(4)+r.Intn(3))...)
			add("series", b)
		case 4: // point list with an extreme count
			var b []byte
			b = append(b, be64b(extreme64[r.Intn(len(extreme64))])...)
			b = append(b, randBytes(r, 12*r.Intn(4)+r.Intn(3))...)
			add("points", b)
		default: // mutated well-formed series / points
			if r.Bool() {
				n := r.Intn(6)
				from := uint32(r.Intn(1000))
				var b []byte
				b = append(b, be32b(from)...)
				b = append(b, be32b(from+uint32(n)*10)...)
				b = append(b, be32b(10)...)
				b = append(b, randBytes(r, 8*n)...)
				add("series", mutate(r, b))
			} else {
				n := r.Intn(6)
				b := be64b(uint64(n))
				b = append(b, randBytes(r, 12*n)...)
				add("points", mutate(r, b))
			}
		}
	}
	return ops
}

// genHostileFile: a damaged file given to Open, then every kind of access on the handle.
func genHostileFile(r *Rng) []Op {
	hb, lay := validHeaderBytes(r)
	size := lay.FileSize()
	file := append([]byte{}, hb...)
	body := size - len(hb)
	switch r.Intn(3) {
	case 0:
		file = append(file, make([]byte, body)...)
	case 1:
		file = append(file, randBytes(r, body)...)
	default:
		// plausible slots: intervals near "now"
		for i := 0; i < body/12; i++ {
			file = append(file, be32b(uint32(1600000000+r.Intn(2000)))...)
			file = append(file, be64b(math.Float64bits(float64(r.Intn(100))))...)
		}
	}
	switch r.Intn(9) {
	case 8: // a header longer than one 4 KiB page, in a file long enough to hold all of it
		c := 330 + r.Intn(900)
		f := append([]byte{}, hb[:12]...)
		f = append(f, be32b(uint32(c))...)
		off, step := 16+12*c, 1
		for i := 0; i < c; i++ {
			if r.Chance(1, 50) {
				f = append(f, randBytes(r, 12)...)
				continue
			}
			n := 2 + r.Intn(3)
			f = append(f, be32b(uint32(off))...)
			f = append(f, be32b(uint32(step))...)
			f = append(f, be32b(uint32(n))...)
			off += 12 * n
			if i < 24 {
				step *= 2
			}
		}
		file = append(f, randBytes(r, r.Intn(200))...)
	case 0: // truncated anywhere
		file = file[:r.Intn(len(file)+1)]
	case 1: // header claims more points than the file holds
		k := r.Intn(lay.K())
		copy(file[16+12*k+8:], be32b(extreme32[r.Intn(len(extreme32))]))
	case 2: // extreme archive count
		copy(file[12:], be32b(extreme32[r.Intn(len(extreme32))]))
	case 3:
		file = mutate(r, file)
	case 4: // header only mutated
		copy(file, mutate(r, hb)[:minInt(len(hb), len(file))])
	case 5: // tiny file
		file = randBytes(r, r.Intn(40))
	default: // intact header, arbitrary slots (a handle that opens on damaged data)
	}
	ops := []Op{{"reset", false}, {"taintmode", false}, {"setdisk " + hx(file), false}, {"open", true}}
	now := 1600000000 + r.Intn(3000)
	for i := 0; i < 6; i++ {
		k := r.Intn(lay.K()+2) - 1
		switch r.Intn(4) {
		case 0:
			ops = append(ops, Op{fmt.Sprintf("raw %d", r.Intn(lay.K())), true})
		case 1:
			ops = append(ops, Op{fmt.Sprintf("upd %d %d %s %d", -1, now-r.Intn(lay.MaxRet()), "3ff0000000000000", now), true})
		case 2:
			ops = append(ops, Op{fmt.Sprintf("updmany %d %d %d:4000000000000000,%d:4008000000000000", -1, now, now-r.Intn(lay.MaxRet()), now-r.Intn(lay.MaxRet())), true})
		default:
			a := r.Intn(lay.MaxRet() + 5)
			b := r.Intn(a + 1)
			ops = append(ops, Op{fmt.Sprintf("fetch %d %d %d %d", k, now-a, now-b, now), true})
		}
	}
	return ops
}

func minInt(a, b int) int {
	if a < b {
		return a
	}
	return b
}
