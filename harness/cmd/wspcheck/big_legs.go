package main

import (
	"encoding/binary"
	"errors"
	"fmt"
	"io/ioutil"
	"math"
	"os"
	"path/filepath"
	"sort"
	"strings"
	"syscall"
	"time"

	wt "github.com/hnakamur/whispertool"
	wcmd "github.com/hnakamur/whispertool/cmd"
)

// Quantities that are only ever small in a random case: the number of files of an item and the
// number of slots of an archive.  These legs make them large once per run and compare the
// command's output with what was written (an oracle that needs no model run; the theorems
// C10.slotwise and C18.raw_is_all_slots say the same of the model for every size).

// manyFilesSum: one item of n tiny files, each holding a few whole numbers; the sum of the item
// must be, slot by slot, the sum of what was written.
func manyFilesSum(dir string, n int, seed uint64) (sig, note string) {
	defer func() {
		if r := recover(); r != nil {
			sig, note = "sum-many-files-panic", fmt.Sprintf("sum over one item of %d files panicked: %v", n, r)
		}
	}()
	// the command opens the files of an item all at once: stay well inside the descriptor limit
	// of the process (a limit of the environment, not of the property)
	var rl syscall.Rlimit
	if syscall.Getrlimit(syscall.RLIMIT_NOFILE, &rl) == nil && rl.Cur > 0 && uint64(n) > rl.Cur/2 {
		n = int(rl.Cur / 2)
	}
	if n < 100 {
		return "", ""
	}
	root := filepath.Join(dir, fmt.Sprintf("many%d", n))
	item := filepath.Join(root, "it")
	os.MkdirAll(item, 0755)
	r := NewRng(seed)
	lay, _ := parseLay("1:120")
	now := int(time.Now().Unix())
	want := map[int]float64{}
	for f := 0; f < n; f++ {
		db, err := wt.Create(filepath.Join(item, fmt.Sprintf("m%05d.wsp", f)), lay, wt.Sum, 0)
		if err != nil {
			return "sum-many-files-create", err.Error()
		}
		var pts []wt.Point
		for j := 0; j < 3; j++ {
			t := now - 2 - r.Intn(12)
			v := float64(1 + r.Intn(9))
			dup := false
			for _, p := range pts {
				if int(p.Time) == t {
					dup = true
				}
			}
			if dup {
				continue
			}
			pts = append(pts, wt.Point{Time: wt.Timestamp(t), Value: wt.Value(v)})
			want[t] += v
		}
		db.UpdatePointsForArchive(pts, 0, wt.Timestamp(now))
		db.Sync()
		db.Close()
	}
	out := filepath.Join(dir, fmt.Sprintf("many%d.txt", n))
	var err error
	for try := 0; try < 3; try++ {
		os.Remove(out)
		cmd := &wcmd.SumCommand{SrcBase: root, ItemPattern: "it", SrcPattern: "*.wsp", From: wt.Timestamp(now - 15), Until: wt.Timestamp(now - 1), ArchiveID: -1, TextOut: out, ShowHeader: false}
		err = execWithin(120*time.Second, cmd.Execute)
		if err != errStalled {
			break
		}
	}
	if err != nil && strings.Contains(err.Error(), "too many open files") {
		return "", ""
	}
	if err != nil && strings.HasPrefix(err.Error(), "panic:") {
		return "sum-many-files-panic", fmt.Sprintf("sum over one item of %d files panicked: %v", n, err)
	}
	if err != nil {
		return "sum-many-files-error", fmt.Sprintf("sum over one item of %d files: %v", n, err)
	}
	b, _ := ioutil.ReadFile(out)
	p := parseOutput(string(b))
	got := map[int]float64{}
	seen := 0
	for _, g := range p.groups {
		for _, rec := range g {
			f := strings.Split(rec, ":")
			if len(f) != 3 {
				continue
			}
			var t int
			fmt.Sscanf(f[1], "%d", &t)
			var bits uint64
			fmt.Sscanf(f[2], "%x", &bits)
			v := math.Float64frombits(bits)
			seen++
			if !math.IsNaN(v) {
				got[t] = v
			}
		}
	}
	var bad []string
	for t, w := range want {
		if t <= now-15 || t > now-1 {
			continue
		}
		if g, ok := got[t]; !ok || g != w {
			bad = append(bad, fmt.Sprintf("t=%d want %v got %v", t, w, got[t]))
		}
	}
	for t, g := range got {
		if _, ok := want[t]; !ok {
			bad = append(bad, fmt.Sprintf("t=%d want nothing got %v", t, g))
		}
	}
	if seen == 0 {
		return "sum-many-files-empty", fmt.Sprintf("sum over one item of %d files printed no point", n)
	}
	if len(bad) > 0 {
		sort.Strings(bad)
		if len(bad) > 4 {
			bad = bad[:4]
		}
		return "sum-many-files-wrong", fmt.Sprintf("sum over one item of %d files is not the slot-wise sum of what was written: %s", n, strings.Join(bad, "; "))
	}
	return "", ""
}

// sumManySuite (C10)
func sumManySuite(c *Ctx) []Finding {
	dir, _ := ioutil.TempDir("", "wspcheck-many-")
	defer os.RemoveAll(dir)
	n := 530 + int(c.Seed%60)
	if c.Tier == "thorough" {
		n = 1100 + int(c.Seed%200)
	}
	sig, note := manyFilesSum(dir, n, c.Seed)
	c.Count("sum-many-files", Op{"sum-many-files", true}, "sum-many", fmt.Sprintf("ok n>500"))
	if sig != "" {
		return []Finding{{Stratum: "S", Suite: "sum-many", Signature: sig, Note: note, Impl: note, Model: "C10: " + sig}}
	}
	return nil
}

// bigViewSuite (C18): one archive of more than a hundred thousand slots, points scattered over
// all of it; view-raw must print exactly the slots that were written, view every one of them
// that lies in the window, and every point of view must be among those of view-raw.
func bigViewSuite(c *Ctx) (findings []Finding) {
	bad := func(sig, note string) {
		findings = append(findings, Finding{Stratum: "S", Suite: "view-big", Signature: sig, Note: note, Impl: note, Model: "C18: " + sig})
	}
	defer func() {
		if r := recover(); r != nil {
			bad("view-big-panic", fmt.Sprint(r))
		}
	}()
	dir, _ := ioutil.TempDir("", "wspcheck-bigview-")
	defer os.RemoveAll(dir)
	r := NewRng(c.Seed)
	n := 100000 + r.Intn(30000)
	if c.Tier == "thorough" {
		n = 200000 + r.Intn(100000)
	}
	lay, _ := parseLay(fmt.Sprintf("1:%d", n))
	now := int(time.Now().Unix())
	path := filepath.Join(dir, "big.wsp")
	db, err := wt.Create(path, lay, wt.Sum, 0)
	if err != nil {
		bad("view-big-create", err.Error())
		return
	}
	want := map[int]float64{}
	var pts []wt.Point
	for j := 0; j < 3000; j++ {
		t := now - 1 - r.Intn(n-2)
		if _, ok := want[t]; ok {
			continue
		}
		v := float64(r.Intn(1000000)) / 4
		want[t] = v
		pts = append(pts, wt.Point{Time: wt.Timestamp(t), Value: wt.Value(v)})
	}
	db.UpdatePointsForArchive(pts, 0, wt.Timestamp(now))
	db.Sync()
	db.Close()
	read := func(name string, run func(out string) error) map[int]float64 {
		out := filepath.Join(dir, name+".txt")
		if err := run(out); err != nil {
			bad("view-big-error", name+": "+err.Error())
			return nil
		}
		b, _ := ioutil.ReadFile(out)
		p := parseOutput(string(b))
		got := map[int]float64{}
		for _, g := range p.groups {
			for _, rec := range g {
				f := strings.Split(rec, ":")
				if len(f) != 3 {
					continue
				}
				var t int
				fmt.Sscanf(f[1], "%d", &t)
				var bits uint64
				fmt.Sscanf(f[2], "%x", &bits)
				if v := math.Float64frombits(bits); !math.IsNaN(v) {
					got[t] = v
				}
			}
		}
		return got
	}
	raw := read("raw", func(out string) error {
		return (&wcmd.ViewRawCommand{SrcBase: dir, SrcRelPath: "big.wsp", ArchiveID: -1, TextOut: out}).Execute()
	})
	view := read("view", func(out string) error {
		return (&wcmd.ViewCommand{SrcBase: dir, SrcRelPath: "big.wsp", ArchiveID: -1, TextOut: out}).Execute()
	})
	c.Count("view-big", Op{"view-big", true}, "view-big", "ok slots>87381")
	if raw == nil || view == nil {
		return
	}
	miss, extra, notInRaw := 0, 0, 0
	for t, w := range want {
		if g, ok := raw[t]; !ok || g != w {
			miss++
		}
	}
	for t := range raw {
		if t == 0 {
			continue // the slots nobody wrote yet: time 0, printed when the window has no lower bound
		}
		if _, ok := want[t]; !ok {
			extra++
		}
	}
	for t, v := range view {
		if g, ok := raw[t]; !ok || g != v {
			notInRaw++
		}
	}
	if miss > 0 || extra > 0 {
		bad("view-raw-big-not-what-was-written", fmt.Sprintf("view-raw of an archive of %d slots: %d of the %d written points missing or different, %d points nobody wrote", n, miss, len(want), extra))
	}
	if notInRaw > 0 {
		bad("view-big-not-in-view-raw", fmt.Sprintf("archive of %d slots: %d points of view are not among those of view-raw", n, notInRaw))
	}
	// (a second later some of the oldest points have left the window of view: only what it shows is compared)
	return
}

// handoffSuite (C05): "what has been synced survives — it is visible to another handle".  The
// other handle here is one whose Open arrived while the writer still held the file: it waits,
// the writer writes into the first page (header page, first slots of the finest archive), Syncs
// and closes, the waiter gets the file and must see what was synced, and what it then writes
// and syncs itself must not undo it.
func handoffSuite(c *Ctx) (findings []Finding) {
	bad := func(sig, note string) {
		findings = append(findings, Finding{Stratum: "S", Suite: "handoff", Signature: sig, Note: note, Impl: note, Model: "C05: " + sig})
	}
	dir, _ := ioutil.TempDir("", "wspcheck-handoff-")
	defer os.RemoveAll(dir)
	r := NewRng(c.Seed)
	rounds := 6
	if c.Tier == "thorough" {
		rounds = 40
	}
	for i := 0; i < rounds; i++ {
		path := filepath.Join(dir, fmt.Sprintf("h%d.wsp", i))
		lay, _ := parseLay([]string{"1:60", "1:30,5:24", "2:50,10:30"}[r.Intn(3)])
		now := 1700000000 + r.Intn(100000)
		a, err := wt.Create(path, lay, wt.Sum, 0)
		if err != nil {
			bad("handoff-create", err.Error())
			return
		}
		a.Sync()
		type res struct {
			db  *wt.Whisper
			err error
		}
		opened := make(chan res, 1)
		go func() {
			db, err := wt.Open(path)
			opened <- res{db, err}
		}()
		time.Sleep(time.Duration(150+r.Intn(200)) * time.Millisecond)
		step := int(lay[0].SecondsPerPoint())
		t1 := now - now%step
		v1 := float64(1 + r.Intn(1000))
		a.UpdatePointsForArchive([]wt.Point{{Time: wt.Timestamp(t1), Value: wt.Value(v1)}}, 0, wt.Timestamp(now))
		a.Sync()
		a.Close()
		var b res
		select {
		case b = <-opened:
		case <-time.After(20 * time.Second):
			bad("handoff-open-stalled", "an Open waiting for a file did not return within 20 s of the holder's Close")
			return
		}
		if b.err != nil {
			bad("handoff-open-error", "an Open that waited for the writer to finish failed: "+b.err.Error())
			continue
		}
		ts, err := b.db.FetchFromArchive(0, wt.Timestamp(t1-step), wt.Timestamp(t1), wt.Timestamp(now))
		if err != nil || len(ts.Values()) != 1 || float64(ts.Values()[0]) != v1 {
			bad("synced-write-invisible-to-waiting-opener", fmt.Sprintf("a point written and synced while another Open was waiting for the file is not what that handle reads afterwards (wrote %v, read %v, err %v)", v1, ts, err))
		}
		// the waiter writes another slot and syncs: the first point must still be on disk
		t2 := t1 - step
		b.db.UpdatePointsForArchive([]wt.Point{{Time: wt.Timestamp(t2), Value: wt.Value(v1 + 1)}}, 0, wt.Timestamp(now))
		b.db.Sync()
		b.db.Close()
		if d, err := wt.Open(path); err == nil {
			ts, err := d.FetchFromArchive(0, wt.Timestamp(t2-step), wt.Timestamp(t1), wt.Timestamp(now))
			if err != nil || len(ts.Values()) != 2 || float64(ts.Values()[1]) != v1 || float64(ts.Values()[0]) != v1+1 {
				bad("synced-write-undone-by-waiting-opener", fmt.Sprintf("after the waiting handle wrote another slot and synced, the file no longer holds both points (%v, err %v)", ts, err))
			}
			d.Close()
		}
		c.Count("handoff", Op{"handoff", true}, "handoff", "ok")
	}
	return
}

// hugePrefixSuite (C14): "every proper prefix of every encoding" includes prefixes of two
// gigabytes of a series of a few hundred million values.  The buffers are anonymous mappings
// that are never touched beyond the twelve header bytes, so they cost address space only.  A
// decoder given such a prefix must ask for more than it was given and no more than the
// complete message (the theorem C14.prefix_series says so of the model for every length).
func hugePrefixSuite(c *Ctx) (findings []Finding) {
	bad := func(sig, note string) {
		findings = append(findings, Finding{Stratum: "S", Suite: "codec-huge", Signature: sig, Note: note, Impl: note, Model: "C14: " + sig})
	}
	defer func() {
		if r := recover(); r != nil {
			bad("huge-prefix-panic", fmt.Sprint(r))
		}
	}()
	r := NewRng(c.Seed)
	for i := 0; i < 4; i++ {
		n := 268435455 + r.Intn(200000000) // 12+8n passes 2^31-1 from the first of these on
		step := 1 + r.Intn(3)
		full := 12 + 8*n
		lens := []int{1<<31 - 1, 1 << 31, 1<<31 + 1 + r.Intn(1000), full - 1 - r.Intn(8)}
		L := lens[i%len(lens)]
		if L >= full {
			L = full - 1
		}
		buf, err := syscall.Mmap(-1, 0, L, syscall.PROT_READ|syscall.PROT_WRITE, syscall.MAP_ANON|syscall.MAP_PRIVATE|syscall.MAP_NORESERVE)
		if err != nil {
			c.Note("codec-huge", "mmap refused: "+err.Error())
			return
		}
		from := 1000
		binary.BigEndian.PutUint32(buf[0:], uint32(from))
		binary.BigEndian.PutUint32(buf[4:], uint32(from+n*step))
		binary.BigEndian.PutUint32(buf[8:], uint32(step))
		ts := &wt.TimeSeries{}
		_, derr := ts.TakeFrom(buf)
		syscall.Munmap(buf)
		c.Count("huge-prefix", Op{"huge-prefix", true}, "codec-huge", "ok")
		var wl *wt.WantLargerBufferError
		switch {
		case derr == nil:
			bad("huge-prefix-accepted", fmt.Sprintf("a series of %d values decoded from a prefix of %d bytes of its %d", n, L, full))
		case !errors.As(derr, &wl):
			bad("huge-prefix-other-error", fmt.Sprintf("a prefix of %d bytes of a series of %d values (%d bytes) was answered with %v, not with a request for a larger buffer", L, n, full, derr))
		case wl.WantedBufSize <= L || wl.WantedBufSize > full:
			bad("huge-prefix-bad-size", fmt.Sprintf("a prefix of %d bytes of a series of %d values (%d bytes complete) was told to retry with %d bytes", L, n, full, wl.WantedBufSize))
		}
	}
	return
}
