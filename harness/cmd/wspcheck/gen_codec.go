package main

import (
	"fmt"
	"math"
	"strings"
)

var edgeU32 = []uint64{0, 1, 2, 255, 256, 65535, 65536, 1 << 24, 1<<31 - 1, 1 << 31, 1<<31 + 1, 1<<32 - 2, 1<<32 - 1}

func genU32(r *Rng) uint64 {
	if r.Chance(1, 2) {
		return edgeU32[r.Intn(len(edgeU32))]
	}
	return r.U64() & 0xffffffff
}

func genBits(r *Rng) string {
	switch r.Intn(8) {
	case 0:
		return fmt.Sprintf("%016x", r.U64()) // any bit pattern
	case 1:
		return fmt.Sprintf("%016x", uint64(0x7ff0000000000000)|r.U64()&0xfffffffffffff) // NaN payloads / +Inf
	case 2:
		return fmt.Sprintf("%016x", uint64(0xfff0000000000000)|r.U64()&0xfffffffffffff)
	case 3:
		return "8000000000000000" // -0
	default:
		return genVal(r, true)
	}
}

func randHex(r *Rng, n int) string {
	var b strings.Builder
	for i := 0; i < n; i++ {
		fmt.Fprintf(&b, "%02x", r.Intn(256))
	}
	return b.String()
}

// prefixes picks the cut points of a hex encoding: all of them when short, else the
// structural boundaries and a sample.
func prefixes(r *Rng, nbytes int) []int {
	var ks []int
	if nbytes <= 48 {
		for k := 0; k < nbytes; k++ {
			ks = append(ks, k)
		}
		return ks
	}
	seen := map[int]bool{}
	for _, k := range []int{0, 1, 3, 4, 7, 8, 11, 12, 13, 15, 16, 17, 19, 20, 27, 28, 29, nbytes - 13, nbytes - 12, nbytes - 9, nbytes - 8, nbytes - 1} {
		if k >= 0 && k < nbytes && !seen[k] {
			seen[k] = true
			ks = append(ks, k)
		}
	}
	for i := 0; i < 12; i++ {
		k := r.Intn(nbytes)
		if !seen[k] {
			seen[k] = true
			ks = append(ks, k)
		}
	}
	return ks
}

// genCodecCase: one well-formed object, its encoding (asked of the model), decoding with
// random trailing bytes, and decoding of proper prefixes.  The lines are produced lazily
// because the encoding comes from the implementation: see codecRoundTrip.
type codecObj struct {
	typ string
	enc string // "enc ..." line
}

func genCodecObj(r *Rng) codecObj {
	switch r.Intn(9) {
	case 0:
		return codecObj{"ts", fmt.Sprintf("enc ts %d", genU32(r))}
	case 1:
		return codecObj{"dur", fmt.Sprintf("enc dur %d", int32(uint32(genU32(r))))}
	case 2:
		return codecObj{"val", "enc val " + genBits(r)}
	case 3:
		return codecObj{"point", fmt.Sprintf("enc point %d:%s", genU32(r), genBits(r))}
	case 4, 5:
		n := r.Intn(21)
		if r.Chance(1, 4) {
			n = 0
		}
		var ps []string
		for i := 0; i < n; i++ {
			ps = append(ps, fmt.Sprintf("%d:%s", genU32(r), genBits(r)))
		}
		s := "-"
		if n > 0 {
			s = strings.Join(ps, ",")
		}
		return codecObj{"points", "enc points " + s}
	case 6:
		return codecObj{"series", "enc series nil"}
	default:
		// well-formed series: from <= until, step > 0, len = (until-from)/step
		step := int64(1 + r.Intn(100))
		if r.Chance(1, 5) {
			step = int64(1 + r.Intn(1<<30))
		}
		if r.Chance(1, 10) {
			step = 1<<31 - 1
		}
		n := int64(r.Intn(30))
		extra := int64(r.Intn(int(step)))
		from := int64(genU32(r))
		span := n*step + extra
		if from+span > 1<<32-1 {
			from = 1<<32 - 1 - span
			if from < 0 {
				from, n, span = 0, 0, 0
				if step <= 1<<32-1 {
					n = (1<<32 - 1) / step
					if n > 30 {
						n = 30
					}
					span = n * step
				}
			}
		}
		until := from + span
		n = (until - from) / step
		var vs []string
		for i := int64(0); i < n; i++ {
			vs = append(vs, genBits(r))
		}
		s := "-"
		if n > 0 {
			s = strings.Join(vs, ",")
		}
		return codecObj{"series", fmt.Sprintf("enc series %d %d %d %s", from, until, step, s)}
	}
}

// CodecExec wraps ImplCodec with the "rt" meta-operation: encode an object on the real
// code, then decode it back with trailing bytes and at every chosen prefix.  The derived
// dec lines are pushed through the ordinary comparison by the suite's Gen (two-phase).
func genCodecOps(r *Rng, impl Executor) []Op {
	var ops []Op
	for i := 0; i < 6; i++ {
		var typ, encLine string
		if r.Chance(1, 5) {
			g := newLibGen(r.Fork(), "C14", false)
			typ, encLine = "header", fmt.Sprintf("newheaderhex %s %d %08x", g.lay, g.agg, g.xff)
		} else {
			o := genCodecObj(r)
			typ, encLine = o.typ, o.enc
		}
		// the bytes are the wire format: an encoding that differs from the model's (which is
		// proved to round-trip) is a violation at this very object
		ops = append(ops, Op{encLine, true})
		e := impl.Exec(encLine)
		e = strings.TrimPrefix(e, "ok ")
		if strings.ContainsAny(e, " ") || e == "panic" || strings.HasPrefix(e, "err") {
			continue
		}
		if e == "-" {
			e = ""
		}
		trail := randHex(r, r.Intn(9))
		full := e + trail
		if full == "" {
			full = "-"
		}
		ops = append(ops, Op{fmt.Sprintf("dec %s %s", typ, full), true})
		for _, k := range prefixes(r, len(e)/2) {
			p := e[:2*k]
			if p == "" {
				p = "-"
			}
			ops = append(ops, Op{fmt.Sprintf("dec %s %s", typ, p), true})
		}
	}
	return ops
}

var _ = math.Pi
