package main

import (
	"fmt"
	"math/big"
	"strings"
)

const durAlphabet = "0123456789smhdwy:,+-"

var durBoundary = []int64{0, 1, 9, 10, 59, 60, 61, 119, 120, 3599, 3600, 3601, 86399, 86400, 86401, 604799, 604800, 604801,
	31535999, 31536000, 31536001, 63072000, 2147483647, 2147483646, 2147483640, 2147472000, 2147443200, 2146867200, 2144448000,
	100, 1000, 7 * 86400 * 52, 365 * 86400 * 7, 3600 * 24 * 7 * 365}

var durStrings = []string{"2147483647s", "2147483648s", "2147483649s", "21474836470s", "35791394m", "35791395m", "596523h", "596524h",
	"24855d", "24856d", "3550w", "3551w", "68y", "69y", "01s", "00s", "0s", "0", "s", "", "1ss", "1sm", "1x", " 1s", "1 s", "1S",
	"+1s", "-1s", "1", "99999999999999999999s", "4294967297s", "4294967296s", "1s\n", "1.5s", "0m", "0y", "007d", "1\xc3\xa9"}

var tsStrings = []string{"1970-01-01T00:00:00Z", "1969-12-31T23:59:59Z", "2106-02-07T06:28:15Z", "2106-02-07T06:28:16Z", "2200-01-01T00:00:00Z",
	"2020-02-29T12:00:00Z", "2021-02-29T12:00:00Z", "2100-02-29T00:00:00Z", "2000-02-29T00:00:00Z", "2020-13-01T00:00:00Z", "2020-00-10T00:00:00Z",
	"2020-04-31T00:00:00Z", "2020-01-01T24:00:00Z", "2020-01-01T23:60:00Z", "2020-01-01T23:59:60Z", "2020-01-01T5:04:05Z", "2020-01-01T05:4:05Z",
	"2020-01-01T05:04:5Z", "2020-01-01T05:04:05.5Z", "2020-01-01T05:04:05,123456789Z", "2020-01-01T05:04:05.Z", "2020-01-01T05:04:05z",
	"2020-01-01T05:04:05+00:00", "2020-01-01 05:04:05Z", "2020-1-01T05:04:05Z", "20200-01-01T05:04:05Z", "0000-01-01T00:00:00Z",
	"9999-12-31T23:59:59Z", "2038-01-19T03:14:07Z", "2038-01-19T03:14:08Z", "", "Z", "2020-01-01T05:04:05ZZ", "2020-01-01T05:04:05Z "}

var tsBoundary = []uint64{0, 1, 59, 60, 3599, 3600, 86399, 86400, 86401, 951782400, 951868799, 951868800, 68169600, 68255999, 68256000,
	1<<31 - 1, 1 << 31, 1<<32 - 1, 1<<32 - 2, 4107542400, 4102444800, 4107456000, 4107542399, 1582934400, 1583020799, 1583020800, 1600000000}

func enumString(idx int, alphabet string) string {
	// idx enumerates all strings in length-lexicographic order: "", a, b, ..., aa, ab, ...
	n := len(alphabet)
	l := 0
	count := 1
	for idx >= count {
		idx -= count
		count *= n
		l++
	}
	b := make([]byte, l)
	for i := l - 1; i >= 0; i-- {
		b[i] = alphabet[idx%n]
		idx /= n
	}
	return string(b)
}

func genTextOps(r *Rng, i int, tier string) []Op {
	var ops []Op
	chunk := 400
	exhaustive := 20*20*20 + 20*20 + 20 + 1 // all strings up to length 3
	if tier == "thorough" {
		exhaustive += 20 * 20 * 20 * 20 // and length 4
	}
	if i*chunk < exhaustive {
		for j := i * chunk; j < (i+1)*chunk && j < exhaustive; j++ {
			s := enumString(j, durAlphabet)
			ops = append(ops, Op{"parsedur " + hexOfString(s), true})
			if strings.ContainsAny(s, ":") {
				ops = append(ops, Op{"parsearch " + hexOfString(s), true})
			}
		}
		return ops
	}
	if i%97 == 0 {
		for _, s := range durStrings {
			ops = append(ops, Op{"parsedur " + hexOfString(s), true})
		}
		for _, d := range durBoundary {
			ops = append(ops, Op{fmt.Sprintf("printdur %d", d), true})
		}
		for _, s := range tsStrings {
			ops = append(ops, Op{"parsets " + hexOfString(s), true}, Op{"parsetsflag " + hexOfString(s), true})
		}
		for _, t := range tsBoundary {
			ops = append(ops, Op{fmt.Sprintf("printts %d", t), true})
		}
		for m := 0; m <= 10; m++ {
			ops = append(ops, Op{fmt.Sprintf("aggname %d", m), true})
		}
		for _, n := range []string{"average", "sum", "last", "max", "min", "first", "mix", "percentile", "avg", "Sum", "x"} {
			ops = append(ops, Op{"aggparse " + n, true}, Op{"aggflag " + n, true})
		}
	}
	impl := ImplCodec{}
	for c := 0; c < 40; c++ {
		switch r.Intn(8) {
		case 0, 1: // print then parse a duration (round trip through the real printer)
			var d int64
			switch r.Intn(4) {
			case 0:
				d = durBoundary[r.Intn(len(durBoundary))]
			case 1:
				u := []int64{1, 60, 3600, 86400, 604800, 31536000}[r.Intn(6)]
				d = u * int64(r.Intn(int(2147483647/u)+1))
			default:
				d = int64(r.U64() % (1 << 31))
			}
			line := fmt.Sprintf("printdur %d", d)
			ops = append(ops, Op{line, true})
			ops = append(ops, Op{"parsedur " + impl.Exec(line), true})
		case 2: // random duration-like strings
			if r.Chance(1, 3) {
				// a well-formed duration (and list) with one bit of one byte flipped — the unit
				// byte most of the time: bytes outside ASCII, neighbouring letters, the other case
				num := 1 + r.Intn(5000)
				u := "smhdwy"[r.Intn(6)]
				good := []byte(fmt.Sprintf("%d%c", num, u))
				pos := len(good) - 1
				if r.Chance(1, 4) {
					pos = r.Intn(len(good))
				}
				good[pos] ^= 1 << uint(r.Intn(8))
				bad := string(good)
				ops = append(ops, Op{"parsedur " + hexOfString(bad), true}, Op{"parsearch " + hexOfString("1s:"+bad), true},
					Op{"parsearchs " + hexOfString("1s:60s,1m:"+bad), true})
				break
			}
			n := r.Intn(12)
			var b strings.Builder
			for j := 0; j < n; j++ {
				b.WriteByte(durAlphabet[r.Intn(len(durAlphabet))])
			}
			s := b.String()
			ops = append(ops, Op{"parsedur " + hexOfString(s), true}, Op{"parsearch " + hexOfString(s), true}, Op{"parsearchs " + hexOfString(s), true})
		case 3: // number + unit near the overflow edge
			u := "smhdwy"[r.Intn(6)]
			mult := map[byte]int64{'s': 1, 'm': 60, 'h': 3600, 'd': 86400, 'w': 604800, 'y': 31536000}[u]
			q := 2147483647/mult + int64(r.Intn(5)) - 2
			ops = append(ops, Op{"parsedur " + hexOfString(fmt.Sprintf("%d%c", q, u)), true})
			// long numerals whose product with the unit wraps a wider integer (2^32, 2^63, 2^64)
			// back into the 31-bit range: numeral = ceil(k·2^w / unit)
			w := []uint{32, 63, 64}[r.Intn(3)]
			k := new(big.Int).SetUint64(1 + r.U64()%uint64(mult/2+1))
			num := new(big.Int).Lsh(k, w)
			num.Div(num, big.NewInt(mult))
			num.Add(num, big.NewInt(int64(r.Intn(3))))
			ops = append(ops, Op{"parsedur " + hexOfString(num.String()+string(u)), true})
			ops = append(ops, Op{"parsearch " + hexOfString("1s:"+num.String()+string(u)), true})
			// and plain long digit strings
			var b strings.Builder
			for j := 0; j < 10+r.Intn(14); j++ {
				b.WriteByte("0123456789"[r.Intn(10)])
			}
			ops = append(ops, Op{"parsedur " + hexOfString(b.String()+string(u)), true})
		case 4: // timestamps: print then parse
			var t uint64
			if r.Bool() {
				t = tsBoundary[r.Intn(len(tsBoundary))] + uint64(r.Intn(3))
				if t > 1<<32-1 {
					t = 1<<32 - 1
				}
			} else {
				t = r.U64() & 0xffffffff
			}
			line := fmt.Sprintf("printts %d", t)
			ops = append(ops, Op{line, true})
			ops = append(ops, Op{"parsets " + impl.Exec(line), true})
		case 5: // mutated timestamp strings
			t := r.U64() & 0xffffffff
			s := []byte(fmt.Sprintf("%s", mustUnhexString(impl.Exec(fmt.Sprintf("printts %d", t)))))
			if len(s) > 0 {
				switch r.Intn(4) {
				case 0:
					s[r.Intn(len(s))] = "0123456789-:TZ.,"[r.Intn(16)]
				case 1:
					k := r.Intn(len(s))
					s = append(s[:k], s[k+1:]...)
				case 2:
					k := r.Intn(len(s))
					s = append(s[:k], append([]byte{"0123456789"[r.Intn(10)]}, s[k:]...)...)
				default:
					// year outside the range
					copy(s, fmt.Sprintf("%04d", []int{1969, 2106, 2107, 1900, 2200, 9999, 0}[r.Intn(7)]))
				}
			}
			ops = append(ops, Op{"parsets " + hexOfString(string(s)), true})
		case 6: // retention lists: print a valid layout, parse it back (real printer)
			l := genLayout(r, r.Chance(1, 5))
			var parts []string
			off := l.HdrSize()
			for k := range l.Steps {
				parts = append(parts, fmt.Sprintf("%d:%d:%d", off, l.Steps[k], l.Ns[k]))
				off += 12 * l.Ns[k]
			}
			line := "printarchs " + strings.Join(parts, ",")
			ops = append(ops, Op{line, true})
			ops = append(ops, Op{"parsearchs " + impl.Exec(line), true})
		default: // retention strings with units and broken variants
			units := []string{"s", "m", "h", "d", "w", "y"}
			s := fmt.Sprintf("%d%s:%d%s", 1+r.Intn(60), units[r.Intn(3)], 1+r.Intn(400), units[r.Intn(6)])
			if r.Bool() {
				s += fmt.Sprintf(",%d%s:%d%s", 1+r.Intn(60), units[1+r.Intn(3)], 1+r.Intn(50), units[2+r.Intn(4)])
			}
			if r.Chance(1, 4) {
				s += ","
			}
			ops = append(ops, Op{"parsearchs " + hexOfString(s), true})
			ops = append(ops, Op{"parsearch " + hexOfString(strings.Split(s, ",")[0]), true})
		}
	}
	return ops
}

func mustUnhexString(h string) string {
	b, _ := unhex(h)
	return string(b)
}
